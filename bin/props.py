"""Per-property configuration of the simulation checks (batches, evidence texts)."""

REAL_ALL = ["libphysica (all of /repo/src compiled from the current tree)", "libstdc++ (<random> engines and distributions, iostreams)", "libm"]

PROPS = {
    "C09": {
        "engine": "interp",
        "timeout_s": {"quick": 120, "thorough": 600},
        "batches": {
            "quick": [{"config": "gcc-O1-asan-ubsan", "runs": 6000}, {"config": "clang-O2-ndebug", "runs": 1500},
                      {"config": "clang-O1-preempt", "runs": 600, "kv": {"conc_frac": "0.1"}}],
            "thorough": [{"config": "clang-O2-ndebug", "runs": 50000}, {"config": "gcc-O1-asan-ubsan", "runs": 12000},
                         {"config": "clang-O1-preempt", "runs": 6000, "kv": {"conc_frac": "0.1"}}],
        },
        "rule": "One run = one seeded plan: a table (N in {3..2000}, spacing ratios up to 1e9, optional unit factors) and an "
                "interleaving, chosen by the seeded scheduler, of 1-4 client programs (walker, jumper, edge-sitter, knot-hitter) "
                "issuing Interpolate/operator()/Derivative/Integrate/Local_*/Global_*/Locate/Set_Prefactor/Multiply/copy/assign ops "
                "on one shared object and its copies; after every query the answer is compared with two freshly constructed objects. "
                "Non-trivial (1D): the run drove the index cache through at least one hunt-up, one hunt-down and one bisection look-up "
                "and asked at least one query at a tabulated abscissa while the object was in correlated mode (2D: hunt-up and bisection "
                "on an axis). Distinct = distinct plan text hash among non-trivial runs.",
        "states_measure": "distinct tuples (op kind, correlated flag before the look-up, search branch taken, |segment jump| bucket {0,1,2-9,>=10}, "
                          "argument class {interior, knot, nextafter-neighbour, first/last segment, extrapolation zone}, object is a copy) "
                          "seen by the coverage mirror of the index cache",
        "components": {"real": ["libphysica::Interpolation", "libphysica::Interpolation_2D"] + REAL_ALL,
                       "stub": ["std::random_device::_M_getval and clock/rand symbols (link-time wrap; must never fire in this engine)"]},
        "assumptions": ["x86-64 SSE2 arithmetic, no -ffast-math: bit comparisons are between two objects in one process of one binary",
                        "a sampled set of histories is evidence, not proof",
                        "at tabulated abscissae 'within rounding' is taken as 16 ulp of the largest term entering the result"],
    },
    "C08": {
        "engine": "interp",
        "timeout_s": {"quick": 120, "thorough": 600},
        "batches": {
            "quick": [{"config": "gcc-O1-asan-ubsan", "runs": 6000}, {"config": "clang-O2-ndebug", "runs": 1500}],
            "thorough": [{"config": "clang-O2-ndebug", "runs": 40000}, {"config": "gcc-O1-asan-ubsan", "runs": 10000}],
        },
        "rule": "Same plans as C09 with the op mix shifted to Integrate / Local_* / Global_* / Set_Prefactor / Multiply. After each such "
                "op the result is compared with a reference computed from the curve itself (fresh object with the same prefactor "
                "history): 4-point Gauss-Legendre per knot-to-knot piece for integrals (+ additivity, antisymmetry, min/max bounds), "
                "dense sampling (limits, knots inside, 16 aux points per piece) for extrema (bound and attainment). Non-trivial: the run "
                "contains an extremum query spanning >=3 knots and queries under a prefactor != 1 and under a negative prefactor. "
                "Distinct = distinct plan text hash among non-trivial runs.",
        "states_measure": "same tuple as C09 (the cache state at which each integral/extremum query was asked)",
        "irrelevant_probes": ["bit_exact_comparisons", "tolerance_comparisons_at_knots", "comparisons_with_a_pristine_process", "same_argument_asked_of_another_table_first"],
        "components": {"real": ["libphysica::Interpolation", "libphysica::Interpolation_2D"] + REAL_ALL,
                       "stub": ["std::random_device::_M_getval and clock/rand symbols (link-time wrap; must never fire in this engine)"]},
        "assumptions": ["the reference takes Interpolate() as the definition of the curve (its correctness is C01, not decided here)",
                        "integral tolerance 64*eps*sum_j max|f_j|*(|x_l|+|x_r|+h_j): the conditioning of the antiderivative-difference formula",
                        "extrema tolerance 8 ulp of the largest sampled |value|; in the 1% extrapolation zone attainment is relaxed to 1e-3 of the sampled range"],
    },
    "C14": {
        "engine": "mc",
        "timeout_s": {"quick": 60, "thorough": 900},
        "batches": {
            "quick": [{"config": "clang-O2-ndebug", "runs": 800}, {"config": "gcc-O1-asan-ubsan", "runs": 160}],
            "thorough": [{"config": "clang-O2-ndebug", "runs": 6000}, {"config": "gcc-O1-asan-ubsan", "runs": 600}],
        },
        "rule": "One run = one call history in a pristine process image: 2-13 integrator requests owned by 1-3 clients and interleaved by the "
                "seeded scheduler (method in {Monte-Carlo, Vegas, Miser} through Integrate_MC or the Integrate_2D/3D front ends, 1-6 "
                "dimensions, offset anisotropic regions, budgets 1e3..1e6, six integrand families, plan-chosen std::random_device output "
                "per call incl. 0, 1, 2^32-1 and repeats). Checked per call: containment of every sample in its own axis limits, one "
                "device draw and no other entropy, evaluation budget, exactness on constants, six-SE accuracy (with replayable "
                "escalation) on regular smooth integrands; over the history: the last call and two others are re-run alone in a "
                "pristine grandchild and must agree bit for bit (value, evaluation count, hash of all sample points); verbatim repeats "
                "inside the history must agree too. Non-trivial: a compared call is preceded by >=2 calls differing from it in "
                "dimension and in method. Distinct = distinct plan text hash among non-trivial runs.",
        "states_measure": "distinct tuples (method, ndim, budget bucket, previous method, previous ndim, history-length bucket) of executed calls",
        "components": {"real": ["libphysica::Integrate_MC / Integrate_MC_Vegas / Miser / brute force", "Integrate_2D/Integrate_3D front ends", "std::mt19937 seeded by the shipped code path PRNG(rd())"] + REAL_ALL,
                       "stub": ["std::random_device::_M_getval (link-time wrap: value chosen by the plan)", "integrands (harness callbacks with closed-form integrals that record every sample point)"]},
        "assumptions": ["accuracy clause uses the plain-MC standard error V*sigma_f/sqrt(N_eff) (N_eff = N, N/5 for Vegas, N/2 for Miser) because the library returns no error estimate; only 'regular' integrands (sup|f-mean| <= 0.1 sigma sqrt(N_eff)) are judged",
                        "escalation rule: an excursion beyond 6 SE is a violation only if >=2 of 9 seeds exceed 5 SE (false-alarm probability ~1e-10)",
                        "a pristine process image is obtained by fork() of a process that never called libphysica"],
    },
    "C18": {
        "engine": "samplers",
        "timeout_s": {"quick": 180, "thorough": 900},
        "batches": {
            "quick": [{"config": "clang-O2-ndebug", "runs": 600}, {"config": "gcc-O1-asan-ubsan", "runs": 200, "kv": {"law_frac": "0.03"}},
                      {"config": "clang-O1-preempt", "runs": 300, "kv": {"law_frac": "0", "conc_frac": "0.4"}}],
            "thorough": [{"config": "clang-O2-ndebug", "runs": 4000}, {"config": "gcc-O1-asan-ubsan", "runs": 500, "kv": {"law_frac": "0.03"}},
                         {"config": "clang-O1-preempt", "runs": 4000, "kv": {"law_frac": "0", "conc_frac": "0.4"}}],
        },
        "rule": "Two kinds of run on one caller-owned std::mt19937. History runs: 1-4 clients, each bound to a sampler family, interleaved "
                "by the seeded scheduler with re-seeding (0, 1, 5489, 2^32-1, random) and discard(1..1e6) faults; after every sampler op "
                "the same op is executed again on a clone of the pre-state and must give bit-identical outputs and an equal state; "
                "support/domain and exact sample counts ((sample, thinning, burn_in) from the grid {0,1,2,3,7,50,200}x{1,2,3,10,200}x"
                "{0,1,5,200}) are checked; vector Poisson must equal the scalar call sequence; no entropy may come from anywhere but the "
                "generator. Law runs (about 20%): a pool of 2e4..1e6 draws of one sampler collected while an intruder sampler is "
                "called on the same generator every 1..50 draws, tested with the DKW inequality at level 1e-12 (plus Poisson moment "
                "bands; Metropolis from independent 200-step chains, and a loose moment check on long thinned chains). "
                "Non-trivial: history run with >=3 different sampler kinds and >=1 op starting from a used generator state, or law "
                "run with intruder calls. Distinct = distinct plan text hash among non-trivial runs.",
        "states_measure": "distinct tuples (sampler kind, previous sampler kind on the generator, generator state fresh/used, parameter bucket) "
                          "plus (pooled sampler kind, family, intruder kind) for law pools",
        "components": {"real": ["libphysica::Sample_Uniform/Gauss/Poisson, Inverse_Transform_Sampling, Rejection_Sampling(_2D), Sample_Metropolis(_2D)", "libphysica::Find_Root, Quantile_Gauss, Inv_Erf (reached through the samplers)", "std::mt19937, std::uniform_real_distribution"] + REAL_ALL,
                       "stub": ["target densities and CDFs (harness callbacks with closed-form CDFs)", "std::random_device / clock / rand symbols (link-time wrap; any draw is a violation)"]},
        "assumptions": ["DKW inequality at level 1e-12 per test for i.i.d. draws; Metropolis pools are made i.i.d. by taking one sample per independent 200-step chain (total-variation slack 1e-6 added)",
                        "model slack for the samplers' own numerics: Sample_Gauss 6e-5 (Inv_Erf root tolerance 1e-4), inverse transform 1e-9, Metropolis via Sample_Gauss 1e-4",
                        "only gross distributional errors are refutable (D >~ 0.004 at n=1e6, ~0.012 at n=1e5)"],
    },
    "C20": {
        "engine": "fileio",
        "timeout_s": {"quick": 60, "thorough": 120},
        "states_per_config": True,
        "batches": {
            "quick": [{"config": "gcc-O1-asan-ubsan", "runs": 2000, "kv": {"faults": "A"}},
                      {"config": "gcc-O1-asan-ubsan", "runs": 3000, "kv": {"faults": "B"}},
                      {"config": "clang-O0", "runs": 2000, "kv": {"faults": "B"}},
                      {"config": "clang-O0", "runs": 2000, "kv": {"faults": "C"}},
                      {"config": "gcc-O2-ndebug", "runs": 1500, "kv": {"faults": "B"}}],
            "thorough": [{"config": "gcc-O0", "runs": 20000, "kv": {"faults": "A"}},
                         {"config": "gcc-O2", "runs": 30000, "kv": {"faults": "B"}},
                         {"config": "clang-O0", "runs": 30000, "kv": {"faults": "B"}},
                         {"config": "clang-O2-ndebug", "runs": 25000, "kv": {"faults": "C"}},
                         {"config": "gcc-O1-asan-ubsan", "runs": 25000, "kv": {"faults": "C"}},
                         {"config": "clang-O1-asan-ubsan", "runs": 20000, "kv": {"faults": "B"}},
                         {"config": "gcc-O2-ndebug", "runs": 20000, "kv": {"faults": "B"}}],
        },
        "rule": "One run = one seeded plan of 4-45 operations on a store of up to 6 paths under /simfs/ (Export_List, Export_Table, both "
                "Export_Function overloads with linear and logarithmic grids, Import_List, Import_Table, File_Exists, all In_Units "
                "overloads with and without rounding, unit-constant identities), executed by real libphysica + libstdc++ iostreams on "
                "the simulated file layer and compared op-by-op with a reference model (last exported shape/values/units/header per "
                "path; untouched paths byte-identical). Fault configurations run as separate batches: A none; B legal perturbations "
                "on every simulated descriptor (short write/writev, short read, EINTR at 5-40% per syscall) with the oracle unchanged; "
                "C additionally hard faults (ENOSPC/EIO from the n-th write of an export, failed open for writing) after which only "
                "the faulted path is indeterminate until the next fault-free export. Build-configuration swarm: the same simulation "
                "is built with g++ and clang++ at -O0/-O1+sanitizers/-O2. Non-trivial: the run contains an export over a longer file, "
                "a multi-line header, a table with >=2 columns and per-column units, and (B, C) a fault fired inside an export and "
                "inside an import. Distinct = distinct plan text hash among non-trivial runs.",
        "states_measure": "distinct tuples (build config, op kind, previous op on the same path, fault class fired {none, legal, hard}, header lines {0,1,>=2}, rows bucket, columns bucket)",
        "components": {"real": ["libphysica::Export_List/Export_Table/Export_Function/Import_List/Import_Table/File_Exists/In_Units", "libphysica::natural_units constants (dynamic/static initialisation as the compiler chose)", "libstdc++ basic_filebuf / ofstream / ifstream / num_put / num_get", "glibc stdio FILE objects (fdopen on the simulated descriptor)"] + REAL_ALL,
                       "stub": ["file system for paths under /simfs/ (one memfd per file; fopen64/fopen/fclose/read/write/writev/stat defined in the harness executable)", "tabulated function passed to Export_Function (harness callback a+b*x)"]},
        "assumptions": ["values and units are generated so that value/unit and the value itself are normal doubles (text input cannot represent anything else)",
                        "six significant digits: |v'-v| <= 5.0001e-6 |v|, and exact equality when value/unit prints exactly with six digits",
                        "after a hard I/O fault C20 states nothing about the affected path: it is not judged until the next fault-free export; all other paths keep the exact oracle"],
    },
    "C06": {
        "engine": "memo",
        "timeout_s": {"quick": 120, "thorough": 300},
        "batches": {
            "quick": [{"config": "gcc-O1-asan-ubsan", "runs": 2000}, {"config": "clang-O2-ndebug", "runs": 600}],
            "thorough": [{"config": "gcc-O1-asan-ubsan", "runs": 12000}, {"config": "clang-O2-ndebug", "runs": 12000}],
        },
        "rule": "PARTIAL: only the history clause of C06 ('all n<=170 for Factorial in every call order; the memo table grows on demand') is "
                "decided. One run = a pristine process image (memo table = {1}) in which 1-3 clients (ascending, descending, random, "
                "'exactly one past the table end', binomials) issue Factorial(n<=170) and Binomial_Coefficient(n<=400,k) in "
                "scheduler-chosen order. Every Factorial answer is compared with an 80-bit product-chain reference (n/2+1 ulp, exact "
                "below 23!), with earlier answers of the same history (bit-identical), with the recurrence n!=n(n-1)! on library "
                "outputs, and - for up to 9 flagged ops per run - bit for bit with the answer of a pristine process asked only that. "
                "Binomials with n<=170 (which go through the memo) are checked against an 80-bit reference (16 ulp sanity "
                "bound; their value accuracy is an input property not decided here), symmetry and Pascal's rule (8 ulp); n>170 is a no-memo control judged for purity only. About 2% of the runs "
                "are an exhaustive sweep: each of the 171 'first call is Factorial(n)' histories in its own pristine process times three "
                "follow-up patterns. Non-trivial: >=5 distinct arguments requested in the history, or an exhaustive sweep. "
                "Distinct = distinct plan text hash among non-trivial runs.",
        "states_measure": "distinct (n, request class {grows the table, repeated, answered from the table}) pairs",
        "components": {"real": ["libphysica::Factorial, Binomial_Coefficient (and GammaLn behind n>170)"] + REAL_ALL, "stub": []},
        "assumptions": ["the accuracy clauses of C06 for GammaLn/Gamma/GammaP/GammaQ/Inv_Gamma* are pure functions of their arguments and are NOT decided by this check",
                        "a pristine process image is obtained by fork() of a process that never called libphysica"],
    },
}
