"""Per-property configuration of the simulation checks (batches, evidence texts)."""

REAL_ALL = ["libphysica (all of /repo/src compiled from the current tree)", "libstdc++ (<random> engines and distributions, iostreams)", "libm"]

PROPS = {
    "C09": {
        "engine": "interp",
        "batches": {
            "quick": [{"config": "gcc-O1-asan-ubsan", "runs": 6000}],
            "thorough": [{"config": "clang-O2", "runs": 50000}, {"config": "gcc-O1-asan-ubsan", "runs": 12000}],
        },
        "rule": "One run = one seeded plan: a table (N in {3..2000}, spacing ratios up to 1e9, optional unit factors) and an "
                "interleaving, chosen by the seeded scheduler, of 1-4 client programs (walker, jumper, edge-sitter, knot-hitter) "
                "issuing Interpolate/operator()/Derivative/Integrate/Local_*/Global_*/Locate/Set_Prefactor/Multiply/copy/assign ops "
                "on one shared object and its copies; after every query the answer is compared with two freshly constructed objects. "
                "Non-trivial (1D): the run drove the index cache through at least one hunt-up, one hunt-down and one bisection look-up "
                "and asked at least one query at a tabulated abscissa while the object was in correlated mode (2D: hunt-up and bisection "
                "on an axis). Distinct = distinct plan text hash among non-trivial runs.",
        "states_measure": "distinct tuples (op kind, correlated flag before the look-up, search branch taken, |segment jump| bucket {0,1,2-9,>=10}, "
                          "argument class {interior, knot, nextafter-neighbour, first/last segment, extrapolation zone}, object is a copy) "
                          "seen by the coverage mirror of the index cache",
        "components": {"real": ["libphysica::Interpolation", "libphysica::Interpolation_2D"] + REAL_ALL,
                       "stub": ["std::random_device::_M_getval and clock/rand symbols (link-time wrap; must never fire in this engine)"]},
        "assumptions": ["x86-64 SSE2 arithmetic, no -ffast-math: bit comparisons are between two objects in one process of one binary",
                        "a sampled set of histories is evidence, not proof",
                        "at tabulated abscissae 'within rounding' is taken as 16 ulp of the largest term entering the result"],
    },
    "C08": {
        "engine": "interp",
        "batches": {
            "quick": [{"config": "gcc-O1-asan-ubsan", "runs": 6000}],
            "thorough": [{"config": "clang-O2", "runs": 40000}, {"config": "gcc-O1-asan-ubsan", "runs": 10000}],
        },
        "rule": "Same plans as C09 with the op mix shifted to Integrate / Local_* / Global_* / Set_Prefactor / Multiply. After each such "
                "op the result is compared with a reference computed from the curve itself (fresh object with the same prefactor "
                "history): 4-point Gauss-Legendre per knot-to-knot piece for integrals (+ additivity, antisymmetry, min/max bounds), "
                "dense sampling (limits, knots inside, 16 aux points per piece) for extrema (bound and attainment). Non-trivial: the run "
                "contains an extremum query spanning >=3 knots and queries under a prefactor != 1 and under a negative prefactor. "
                "Distinct = distinct plan text hash among non-trivial runs.",
        "states_measure": "same tuple as C09 (the cache state at which each integral/extremum query was asked)",
        "components": {"real": ["libphysica::Interpolation", "libphysica::Interpolation_2D"] + REAL_ALL,
                       "stub": ["std::random_device::_M_getval and clock/rand symbols (link-time wrap; must never fire in this engine)"]},
        "assumptions": ["the reference takes Interpolate() as the definition of the curve (its correctness is C01, not decided here)",
                        "integral tolerance 64*eps*sum_j max|f_j|*(|x_l|+|x_r|+h_j): the conditioning of the antiderivative-difference formula",
                        "extrema tolerance 8 ulp of the largest sampled |value|; in the 1% extrapolation zone attainment is relaxed to 1e-3 of the sampled range"],
    },
    "C14": {
        "engine": "mc",
        "batches": {
            "quick": [{"config": "clang-O2", "runs": 500}, {"config": "gcc-O1-asan-ubsan", "runs": 100}],
            "thorough": [{"config": "clang-O2", "runs": 6000}, {"config": "gcc-O1-asan-ubsan", "runs": 600}],
        },
        "rule": "One run = one call history in a pristine process image: 2-13 integrator requests owned by 1-3 clients and interleaved by the "
                "seeded scheduler (method in {Monte-Carlo, Vegas, Miser} through Integrate_MC or the Integrate_2D/3D front ends, 1-6 "
                "dimensions, offset anisotropic regions, budgets 1e3..1e6, six integrand families, plan-chosen std::random_device output "
                "per call incl. 0, 1, 2^32-1 and repeats). Checked per call: containment of every sample in its own axis limits, one "
                "device draw and no other entropy, evaluation budget, exactness on constants, six-SE accuracy (with replayable "
                "escalation) on regular smooth integrands; over the history: the last call and two others are re-run alone in a "
                "pristine grandchild and must agree bit for bit (value, evaluation count, hash of all sample points); verbatim repeats "
                "inside the history must agree too. Non-trivial: a compared call is preceded by >=2 calls differing from it in "
                "dimension and in method. Distinct = distinct plan text hash among non-trivial runs.",
        "states_measure": "distinct tuples (method, ndim, budget bucket, previous method, previous ndim, history-length bucket) of executed calls",
        "components": {"real": ["libphysica::Integrate_MC / Integrate_MC_Vegas / Miser / brute force", "Integrate_2D/Integrate_3D front ends", "std::mt19937 seeded by the shipped code path PRNG(rd())"] + REAL_ALL,
                       "stub": ["std::random_device::_M_getval (link-time wrap: value chosen by the plan)", "integrands (harness callbacks with closed-form integrals that record every sample point)"]},
        "assumptions": ["accuracy clause uses the plain-MC standard error V*sigma_f/sqrt(N_eff) (N_eff = N, N/5 for Vegas, N/2 for Miser) because the library returns no error estimate; only 'regular' integrands (sup|f-mean| <= 0.1 sigma sqrt(N_eff)) are judged",
                        "escalation rule: an excursion beyond 6 SE is a violation only if >=2 of 9 seeds exceed 5 SE (false-alarm probability ~1e-10)",
                        "a pristine process image is obtained by fork() of a process that never called libphysica"],
    },
}
