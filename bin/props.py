"""Per-property configuration of the simulation checks (batches, evidence texts)."""

REAL_ALL = ["libphysica (all of /repo/src compiled from the current tree)", "libstdc++ (<random> engines and distributions, iostreams)", "libm"]

PROPS = {
    "C09": {
        "engine": "interp",
        "batches": {
            "quick": [{"config": "gcc-O1-asan-ubsan", "runs": 6000}],
            "thorough": [{"config": "clang-O2", "runs": 50000}, {"config": "gcc-O1-asan-ubsan", "runs": 12000}],
        },
        "rule": "One run = one seeded plan: a table (N in {3..2000}, spacing ratios up to 1e9, optional unit factors) and an "
                "interleaving, chosen by the seeded scheduler, of 1-4 client programs (walker, jumper, edge-sitter, knot-hitter) "
                "issuing Interpolate/operator()/Derivative/Integrate/Local_*/Global_*/Locate/Set_Prefactor/Multiply/copy/assign ops "
                "on one shared object and its copies; after every query the answer is compared with two freshly constructed objects. "
                "Non-trivial (1D): the run drove the index cache through at least one hunt-up, one hunt-down and one bisection look-up "
                "and asked at least one query at a tabulated abscissa while the object was in correlated mode (2D: hunt-up and bisection "
                "on an axis). Distinct = distinct plan text hash among non-trivial runs.",
        "states_measure": "distinct tuples (op kind, correlated flag before the look-up, search branch taken, |segment jump| bucket {0,1,2-9,>=10}, "
                          "argument class {interior, knot, nextafter-neighbour, first/last segment, extrapolation zone}, object is a copy) "
                          "seen by the coverage mirror of the index cache",
        "components": {"real": ["libphysica::Interpolation", "libphysica::Interpolation_2D"] + REAL_ALL,
                       "stub": ["std::random_device::_M_getval and clock/rand symbols (link-time wrap; must never fire in this engine)"]},
        "assumptions": ["x86-64 SSE2 arithmetic, no -ffast-math: bit comparisons are between two objects in one process of one binary",
                        "a sampled set of histories is evidence, not proof",
                        "at tabulated abscissae 'within rounding' is taken as 16 ulp of the largest term entering the result"],
    },
    "C08": {
        "engine": "interp",
        "batches": {
            "quick": [{"config": "gcc-O1-asan-ubsan", "runs": 6000}],
            "thorough": [{"config": "clang-O2", "runs": 40000}, {"config": "gcc-O1-asan-ubsan", "runs": 10000}],
        },
        "rule": "Same plans as C09 with the op mix shifted to Integrate / Local_* / Global_* / Set_Prefactor / Multiply. After each such "
                "op the result is compared with a reference computed from the curve itself (fresh object with the same prefactor "
                "history): 4-point Gauss-Legendre per knot-to-knot piece for integrals (+ additivity, antisymmetry, min/max bounds), "
                "dense sampling (limits, knots inside, 16 aux points per piece) for extrema (bound and attainment). Non-trivial: the run "
                "contains an extremum query spanning >=3 knots and queries under a prefactor != 1 and under a negative prefactor. "
                "Distinct = distinct plan text hash among non-trivial runs.",
        "states_measure": "same tuple as C09 (the cache state at which each integral/extremum query was asked)",
        "components": {"real": ["libphysica::Interpolation", "libphysica::Interpolation_2D"] + REAL_ALL,
                       "stub": ["std::random_device::_M_getval and clock/rand symbols (link-time wrap; must never fire in this engine)"]},
        "assumptions": ["the reference takes Interpolate() as the definition of the curve (its correctness is C01, not decided here)",
                        "integral tolerance 64*eps*sum_j max|f_j|*(|x_l|+|x_r|+h_j): the conditioning of the antiderivative-difference formula",
                        "extrema tolerance 8 ulp of the largest sampled |value|; in the 1% extrapolation zone attainment is relaxed to 1e-3 of the sampled range"],
    },
}
