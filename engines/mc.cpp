// Engine `mc` (C14): call histories of the Monte Carlo integrators in a pristine process image.
// Seams: std::random_device is wrapped at link time (plan-controlled seed per API call); the
// integrand is a harness callback that records every sample point. Oracles: containment of every
// sample, exactness on constants, evaluation budget, history independence (same call + seed alone
// in a pristine grandchild, and repeated inside the history), six-standard-error accuracy on
// regular smooth integrands with a replayable escalation rule.
#include "../sim/sim.hpp"

#include <algorithm>
#include <map>
#include <sys/mman.h>
#include <sys/wait.h>
#include <unistd.h>

#include "libphysica/Integration.hpp"
#include "libphysica/Linear_Algebra.hpp"

using namespace sim;

namespace
{
enum Probe
{
	P_CALLS,
	P_EVALS,
	P_MC,
	P_VEGAS,
	P_MISER,
	P_FRONT2D,
	P_FRONT3D,
	P_FRONT_SPH,
	P_NESTED,
	P_VEGAS_MDS_NEG,
	P_MISER_FLAT,
	P_NARROW_UNDERFLOW,
	P_SOLO_COMPARED,
	P_DUP_COMPARED,
	P_ACCURACY_CHECKED,
	P_ESCALATIONS,
	P_ENSEMBLES,
	P_CONST_CHECKED,
	P_SEED_EDGE,
	P_DIM_CHANGE,
	P_BUDGET_1E5,
	P_BUDGET_1E6,
	P_LONG_HISTORY,
	P_ABORTED,
	P_FAR_NARROW,
	P_NPROBES
};
const char* PROBE_NAMES[] = {"integrator_calls", "integrand_evaluations", "method_plain_mc", "method_vegas", "method_miser", "frontend_integrate_2d", "frontend_integrate_3d", "frontend_integrate_3d_spherical", "integrand_runs_a_nested_integration", "vegas_stratification_off_branch(2ng>=50)", "miser_call_with_mostly_flat_zero_integrand", "narrow_peak_underflows_to_zero", "history_vs_pristine_process_comparisons", "repeat_inside_history_comparisons", "accuracy_checks_on_regular_integrands", "accuracy_escalations", "ensemble_bias_tests", "constant_integrand_checks", "fault_entropy_edge_seed(0,1,2^32-1,repeat)", "history_changes_dimension_before_compared_call", "budget_1e5_or_more", "budget_1e6", "call_number_20_or_later_in_its_process", "fault_integrand_throws_mid_call", "region_axis_1e4_or_more_widths_away_from_the_origin"};

enum Metric
{
	M_MAX_Z,
	M_CONST_ERR,
	M_BUDGET_RATIO,
	M_ENS_Z
};

const char* METHODS[] = {"Monte-Carlo", "Vegas", "Miser"};

struct CallSpec
{
	int method = 0, frontend = 0, ndim = 1, ncalls = 1000, family = 0, solo = 0, ensemble = 0;
	long long abort_at = 0;	  // fault: the integrand throws at this evaluation (the call is abandoned half-way)
	uint32_t seed = 0;
	std::vector<double> lo, hi, par;   // par: family parameters, 4 per axis + [scale]
};

Op spec_to_op(const CallSpec& c)
{
	Op o(c.ensemble ? "ensemble" : "call");
	o.i = {c.method, c.frontend, c.ndim, c.ncalls, c.family, (long long) c.seed, c.solo, c.ensemble, c.abort_at};
	o.d = c.lo;
	o.d.insert(o.d.end(), c.hi.begin(), c.hi.end());
	o.d.insert(o.d.end(), c.par.begin(), c.par.end());
	return o;
}
bool op_to_spec(const Op& o, CallSpec& c)
{
	if(o.i.size() < 8)
		return false;
	c.method   = (int) o.i[0];
	c.frontend = (int) o.i[1];
	c.ndim	   = (int) o.i[2];
	c.ncalls   = (int) o.i[3];
	c.family   = (int) o.i[4];
	c.seed	   = (uint32_t) o.i[5];
	c.solo	   = (int) o.i[6];
	c.ensemble = (int) o.i[7];
	c.abort_at = o.i.size() > 8 ? o.i[8] : 0;
	if(c.ndim < 1 || c.ndim > 6 || c.method < 0 || c.method > 2 || c.ncalls < 100 || c.ncalls > 2000000)
		return false;
	if((int) o.d.size() != 2 * c.ndim + 4 * c.ndim + 1)
		return false;
	c.lo.assign(o.d.begin(), o.d.begin() + c.ndim);
	c.hi.assign(o.d.begin() + c.ndim, o.d.begin() + 2 * c.ndim);
	c.par.assign(o.d.begin() + 2 * c.ndim, o.d.end());
	for(int j = 0; j < c.ndim; j++)
		if(!(c.hi[j] != c.lo[j]) || !std::isfinite(c.hi[j]) || !std::isfinite(c.lo[j]))
			return false;	// (an axis may be given in descending order: the integral changes sign, as in one dimension)
	if(c.frontend == 2 && c.ndim != 2)
		c.frontend = 0;
	if((c.frontend == 3 || c.frontend == 4) && c.ndim != 3)
		c.frontend = 0;
	if(c.frontend == 4 && !(c.lo[0] >= 0 && c.lo[1] >= -1 && c.hi[1] <= 1 && c.hi[2] - c.lo[2] <= 2 * M_PI + 1e-12))
		c.frontend = 0;
	return true;
}

// ---------------------------------------------------------------- integrand families (separable: f = scale * prod_j g_j(x_j))
// family: 0 constant, 1 exponential, 2 wide gaussian, 3 narrow gaussian, 4 cubic polynomial, 5 plateau (step on axis 0)
struct Axis
{
	int family;
	double lo, w, p0, p1, p2, p3;
	double g(double x) const
	{
		double t = (x - lo) / w;
		switch(family)
		{
			case 0: return 1.0;
			case 1: return std::exp(-p0 * t);
			case 2:
			case 3:
			{
				double z = (t - p0) / p1;
				return std::exp(-0.5 * z * z);
			}
			case 4: return p0 + t * (p1 + t * (p2 + t * p3));
			default: return t < p0 ? p1 : p2;
		}
	}
	// integral of g and g^2 over the axis, min and max of g
	void moments(long double& I1, long double& I2, double& gmin, double& gmax, double& gabs) const
	{
		long double W = w;
		switch(family)
		{
			case 0:
				I1 = W, I2 = W, gmin = gmax = 1;
				break;
			case 1:
			{
				long double r = p0;
				I1			  = fabsl(r) < 1e-12L ? W : W * (-expm1l(-r)) / r;
				I2			  = fabsl(r) < 1e-12L ? W : W * (-expm1l(-2 * r)) / (2 * r);
				gmin		  = std::min(1.0, std::exp(-p0));
				gmax		  = std::max(1.0, std::exp(-p0));
				break;
			}
			case 2:
			case 3:
			{
				long double m = p0, s = p1;
				I1			  = W * s * sqrtl(2 * M_PIl) * 0.5L * (erfl((1 - m) / (s * sqrtl(2.0L))) - erfl((0 - m) / (s * sqrtl(2.0L))));
				long double s2 = s / sqrtl(2.0L);
				I2			   = W * s2 * sqrtl(2 * M_PIl) * 0.5L * (erfl((1 - m) / (s2 * sqrtl(2.0L))) - erfl((0 - m) / (s2 * sqrtl(2.0L))));
				gmax		   = 1.0;
				gmin		   = std::min(g(lo), g(lo + w));
				break;
			}
			case 4:
			{
				long double c[4] = {p0, p1, p2, p3};
				I1				 = W * (c[0] + c[1] / 2 + c[2] / 3 + c[3] / 4);
				long double sq[7] = {0, 0, 0, 0, 0, 0, 0};
				for(int a = 0; a < 4; a++)
					for(int b = 0; b < 4; b++)
						sq[a + b] += c[a] * c[b];
				I2 = 0;
				for(int k = 0; k < 7; k++)
					I2 += sq[k] / (k + 1);
				I2 *= W;
				// extremes on [0,1]: ends and roots of the derivative
				std::vector<double> ts = {0.0, 1.0};
				double A = 3 * p3, B = 2 * p2, C = p1;
				if(A != 0)
				{
					double disc = B * B - 4 * A * C;
					if(disc >= 0)
					{
						ts.push_back((-B + std::sqrt(disc)) / (2 * A));
						ts.push_back((-B - std::sqrt(disc)) / (2 * A));
					}
				}
				else if(B != 0)
					ts.push_back(-C / B);
				gmin = INFINITY, gmax = -INFINITY;
				for(double t : ts)
					if(t >= 0 && t <= 1)
					{
						double v = p0 + t * (p1 + t * (p2 + t * p3));
						gmin	 = std::min(gmin, v);
						gmax	 = std::max(gmax, v);
					}
				break;
			}
			default:
				I1	 = W * ((long double) p0 * p1 + (1 - (long double) p0) * p2);
				I2	 = W * ((long double) p0 * p1 * p1 + (1 - (long double) p0) * p2 * p2);
				gmin = std::min(p1, p2);
				gmax = std::max(p1, p2);
				break;
		}
		gabs = std::max(std::fabs(gmin), std::fabs(gmax));
	}
};

struct Integrand
{
	std::vector<Axis> ax;
	double scale = 1.0;
	long double exact = 0, volume = 1;
	double sigma = 0, sup_dev = 0;	 // standard deviation of f under the uniform law; sup|f-mean|
	bool smooth = false;
	explicit Integrand(const CallSpec& c)
	{
		scale = c.par[4 * c.ndim];
		long double i1 = 1, i2 = 1;
		double pmin = 1, pmax = 1, pabs = 1;
		bool nonneg = true;
		for(int j = 0; j < c.ndim; j++)
		{
			Axis a;
			a.family = (c.family == 5 && j > 0) ? 0 : c.family == 6 ? 0 : c.family;
			a.lo	 = c.lo[j];
			a.w		 = c.hi[j] - c.lo[j];
			a.p0 = c.par[4 * j], a.p1 = c.par[4 * j + 1], a.p2 = c.par[4 * j + 2], a.p3 = c.par[4 * j + 3];
			ax.push_back(a);
			long double I1, I2;
			double gmin, gmax, gabs;
			a.moments(I1, I2, gmin, gmax, gabs);
			i1 *= I1;
			i2 *= I2;
			volume *= (long double) a.w;
			if(gmin < 0)
				nonneg = false;
			pmin *= gmin;
			pmax *= gmax;
			pabs *= gabs;
		}
		exact			= scale * i1;
		long double mean = exact / volume;
		long double var	 = (long double) scale * scale * i2 / volume - mean * mean;
		sigma			 = var > 0 ? (double) sqrtl(var) : 0.0;
		if(nonneg)
		{
			double a = scale * pmin, b = scale * pmax;
			sup_dev	 = std::max(std::fabs(a - (double) mean), std::fabs(b - (double) mean));
		}
		else
			sup_dev = std::fabs(scale) * pabs + std::fabs((double) mean);
		smooth = c.family == 1 || c.family == 2 || c.family == 4;
		// Gaussians peaked off-centre are in the property's list as well. Narrow ones are judged in one dimension (any width the
		// generator produces, down to 0.2 % of the axis, where the far side underflows to exactly zero) and in two dimensions down
		// to a width of 1 % of the axis; below that, or in more dimensions, a recursive stratifier may legitimately do worse than
		// plain sampling with half its budget, which is the yardstick used here.
		if(c.family == 3 && c.ndim <= 2)
		{
			smooth = true;
			// (axes given in descending order are left out: Miser then compares sample coordinates with the mid-point the wrong
			// way round, hands the larger share of the budget to the quieter half and is - still without bias - several times
			// noisier than plain sampling on a narrow peak; the property does not say whose standard error counts there.)
			for(int j = 0; j < c.ndim; j++)
				if(!(c.par[4 * j + 1] >= (c.ndim == 1 ? 0.002 : 0.01)) || !(c.hi[j] > c.lo[j]))
					smooth = false;
		}
		if(c.family == 6)
			nested_method = (c.par[0] != 0.0) ? 1 : 0;
		if(c.frontend == 4)
		{
			// spherical front end: the user function is the constant `scale`, the library multiplies by r^2 itself;
			// in the integration variables (r, cos theta, phi) the integrand is scale * r^2
			long double r1 = c.lo[0], r2 = c.hi[0], dc = c.hi[1] - c.lo[1], dp = c.hi[2] - c.lo[2];
			long double I1 = (r2 * r2 * r2 - r1 * r1 * r1) / 3, I2 = (powl(r2, 5) - powl(r1, 5)) / 5;
			volume			 = (r2 - r1) * dc * dp;
			exact			 = scale * I1 * dc * dp;
			long double mean = exact / volume;
			long double var	 = (long double) scale * scale * I2 * dc * dp / volume - mean * mean;
			sigma			 = var > 0 ? (double) sqrtl(var) : 0.0;
			sup_dev			 = std::max(std::fabs(scale * (double) (r1 * r1) - (double) mean), std::fabs(scale * (double) (r2 * r2) - (double) mean));
			smooth			 = true;
		}
	}
	// family 6: the integrand is itself an integral - every evaluation runs an inner Monte Carlo integration (plain or Miser)
	// of the constant 1 over its own small region and returns scale * inner / inner volume, i.e. the constant `scale`
	int nested_method = -1;
	mutable uint64_t inner_calls = 0, inner_bad = 0;
	double operator()(const double* x) const
	{
		double f = scale;
		if(nested_method >= 0)
		{
			std::vector<double> reg = {2.0, -1.0, 2.5, 3.0};
			double vol				= 0.5 * 4.0;
			std::function<double(std::vector<double>&, const double)> inner = [&](std::vector<double>& y, const double) {
				if(y.size() < 2 || !(y[0] >= 2.0 && y[0] <= 2.5 && y[1] >= -1.0 && y[1] <= 3.0))
					inner_bad++;
				return 1.0;
			};
			inner_calls++;
			double in = libphysica::Integrate_MC(inner, reg, 64 + (int) (inner_calls % 3) * 40, nested_method == 0 ? "Monte-Carlo" : "Miser");
			return f * (in / vol);
		}
		for(size_t j = 0; j < ax.size(); j++)
			f *= ax[j].g(x[j]);
		return f;
	}
};

struct CallResult
{
	double value;
	uint64_t evals, pthash, zeros;
	int32_t contained;	 // 1 ok, 0 a sample left the region
	int32_t bad_axis;
	double bad_value;
	int32_t bad_size;
	int32_t finished;
	uint64_t entropy_draws;
	uint64_t inner_bad;
	int32_t aborted;
};

// Executes one integrator call with the entropy seam set to `seed`; never throws.
// The region vector of a request lives as long as the history: a caller that repeats a request passes the same vector
// object again (Integrate_MC takes it by non-const reference), so anything the library did to it carries over.
static std::map<std::string, std::vector<double>> g_regions;

CallResult run_call(const CallSpec& c, uint32_t seed)
{
	CallResult r;
	memset(&r, 0, sizeof r);
	r.contained = 1;
	r.pthash	= 0xcbf29ce484222325ull;
	Integrand F(c);
	std::vector<double> slack(c.ndim);
	for(int j = 0; j < c.ndim; j++)
	{
		double m = std::max(std::fabs(c.lo[j]), std::fabs(c.hi[j]));
		slack[j] = 4 * (std::nextafter(m, INFINITY) - m);
	}
	struct AbortCall
	{
	};
	auto observe = [&](const double* x, int n) {
		r.evals++;
		if(c.abort_at > 0 && (long long) r.evals == c.abort_at)
			throw AbortCall();	 // injected fault: the caller's integrand gives up (exception) in the middle of the integration
		// (Vegas hands over its static work vector of 10 entries; only the first ndim are coordinates. Fewer than ndim is an error.)
		if(n < c.ndim && r.contained)
		{
			r.contained = 0;
			r.bad_axis	= -1;
			r.bad_size	= n;
		}
		for(int j = 0; j < c.ndim && j < n; j++)
		{
			r.pthash = fnv1a(&x[j], 8, r.pthash);
			if(!(x[j] >= std::min(c.lo[j], c.hi[j]) - slack[j] && x[j] <= std::max(c.lo[j], c.hi[j]) + slack[j]) && r.contained)
			{
				r.contained = 0;
				r.bad_axis	= j;
				r.bad_value = x[j];
			}
		}
		double f = F(x);
		if(f == 0.0)
			r.zeros++;
		return f;
	};
	uint64_t before = entropy_draws_total();
	entropy_set_call_seed(seed);
	std::string method = METHODS[c.method];
	try
	{
	if(c.frontend == 2)
	{
		std::function<double(double, double)> f2 = [&](double x, double y) {
			double p[2] = {x, y};
			return observe(p, 2);
		};
		r.value = libphysica::Integrate_2D(f2, c.lo[0], c.hi[0], c.lo[1], c.hi[1], method, c.ncalls == 30000 ? 0 : c.ncalls);	// 0 = the documented default of 30000 calls
	}
	else if(c.frontend == 3)
	{
		std::function<double(double, double, double)> f3 = [&](double x, double y, double z) {
			double p[3] = {x, y, z};
			return observe(p, 3);
		};
		r.value = libphysica::Integrate_3D(f3, c.lo[0], c.hi[0], c.lo[1], c.hi[1], c.lo[2], c.hi[2], method, c.ncalls == 30000 ? 0 : c.ncalls);
	}
	else if(c.frontend == 4)
	{
		// Integrate_3D(f(Vector), r1, r2, cos1, cos2, phi1, phi2): the vector handed over must have norm in [r1,r2], polar
		// cosine in [cos1,cos2] and azimuth in [phi1,phi2]
		std::function<double(libphysica::Vector)> fv = [&](libphysica::Vector rv) {
			r.evals++;
			double x = rv[0], y = rv[1], z = rv[2];
			r.pthash  = fnv1a(&x, 8, fnv1a(&y, 8, fnv1a(&z, 8, r.pthash)));
			double rr = std::sqrt(x * x + y * y + z * z);
			double ct = rr > 0 ? z / rr : c.lo[1];
			double ph = std::atan2(y, x);
			if(ph < 0)
				ph += 2 * M_PI;
			double st = std::sqrt(std::max(0.0, 1 - ct * ct));
			double coords[3] = {rr, ct, ph};
			double tol[3]	 = {1e-12 * (1 + c.hi[0]), 1e-12, st > 1e-6 ? 1e-9 / st : 10.0};
			for(int j = 0; j < 3; j++)
			{
				double v = coords[j];
				if(j == 2)
				{
					// the azimuth is periodic: any interval of length <= 2 pi is a legal request ([-pi,pi], a wedge across 0, ...)
					for(int turn = -3; turn <= 3; turn++)
					{
						double w = coords[2] + 2 * M_PI * turn;
						if(w >= c.lo[2] - tol[2] && w <= c.hi[2] + tol[2])
							v = w;
					}
				}
				if(!(v >= c.lo[j] - tol[j] && v <= c.hi[j] + tol[j]) && r.contained)
				{
					r.contained = 0;
					r.bad_axis	= j;
					r.bad_value = v;
				}
			}
			return F.scale;
		};
		r.value = libphysica::Integrate_3D(fv, c.lo[0], c.hi[0], c.lo[1], c.hi[1], c.lo[2], c.hi[2], method, c.ncalls);
	}
	else
	{
		std::function<double(std::vector<double>&, const double)> f = [&](std::vector<double>& x, const double) { return observe(x.data(), (int) x.size()); };
		std::string key;
		for(double v : c.lo)
			key += hexf(v) + ",";
		for(double v : c.hi)
			key += hexf(v) + ",";
		auto it = g_regions.find(key);
		if(it == g_regions.end())
		{
			std::vector<double> region = c.lo;
			region.insert(region.end(), c.hi.begin(), c.hi.end());
			it = g_regions.insert({key, region}).first;
		}
		r.value = libphysica::Integrate_MC(f, it->second, c.ncalls, method);
	}
	}
	catch(AbortCall&)
	{
		r.aborted = 1;
		r.value	  = 0.0;
	}
	r.entropy_draws = entropy_draws_total() - before;
	r.inner_bad		= F.inner_bad;
	r.finished		= 1;
	return r;
}

double n_eff(const CallSpec& c, uint64_t evals)
{
	double n = (double) std::min<uint64_t>(evals, (uint64_t) c.ncalls * 5);
	return c.method == 1 ? n / 5.0 : c.method == 2 ? n / 2.0 : n;
}

struct Exec
{
	Ctx& ctx;
	const Plan& plan;
	std::vector<CallSpec> specs;
	std::vector<int> op_index;
	std::vector<CallResult> results;
	CallResult* solo = nullptr;	  // shared with pristine grandchildren
	Exec(Ctx& c, const Plan& p) : ctx(c), plan(p) {}

	std::string describe(const CallSpec& c)
	{
		std::string s = fmt("%s%s ndim=%d ncalls=%d family=%d seed=%u region=", METHODS[c.method], c.frontend == 2 ? " via Integrate_2D" : c.frontend == 3 ? " via Integrate_3D" : c.frontend == 4 ? " via Integrate_3D(Vector; r, cos theta, phi)" : "", c.ndim, c.ncalls, c.family, c.seed);
		for(int j = 0; j < c.ndim; j++)
			s += fmt("[%.6g,%.6g]", c.lo[j], c.hi[j]);
		return s;
	}

	void check_single(const CallSpec& c, const CallResult& r, bool judged_accuracy)
	{
		if(r.aborted)
		{
			// the integrand gave up half-way: nothing to judge about the value; the samples so far must still be inside, and
			// the NEXT calls of the history must not notice (they are compared with pristine processes as usual)
			ctx.probe(P_ABORTED);
			ctx.log.u64(r.evals);
			if(!r.contained)
				ctx.violate("C14:containment", fmt("sample coordinate %d = %.17g lies outside its axis limits (call later abandoned by its integrand); %s", r.bad_axis, r.bad_value, describe(c).c_str()));
			return;
		}
		ctx.probe(P_CALLS);
		ctx.probe(P_EVALS, r.evals);
		ctx.probe(c.method == 0 ? P_MC : c.method == 1 ? P_VEGAS : P_MISER);
		if(c.frontend == 2)
			ctx.probe(P_FRONT2D);
		if(c.frontend == 3)
			ctx.probe(P_FRONT3D);
		if(c.frontend == 4)
			ctx.probe(P_FRONT_SPH);
		if(c.ncalls >= 100000)
			ctx.probe(P_BUDGET_1E5);
		if(c.ncalls >= 1000000)
			ctx.probe(P_BUDGET_1E6);
		if(c.frontend != 4)
			for(size_t j = 0; j < c.lo.size(); j++)
				if(std::fabs(c.hi[j] - c.lo[j]) * 1e4 <= std::min(std::fabs(c.lo[j]), std::fabs(c.hi[j])))
				{
					ctx.probe(P_FAR_NARROW);
					break;
				}
		if(c.seed == 0 || c.seed == 1 || c.seed == 0xffffffffu)
			ctx.probe(P_SEED_EDGE);
		if(c.method == 1)
		{
			int ng = (int) std::pow(c.ncalls / 2.0 + 0.25, 1.0 / c.ndim);
			if(2 * ng - 50 >= 0)
			{
				ctx.probe(P_VEGAS_MDS_NEG);
			}
		}
		if(c.method == 2 && r.evals && r.zeros * 2 > r.evals)
			ctx.probe(P_MISER_FLAT);
		if(c.family == 3 && r.zeros)
			ctx.probe(P_NARROW_UNDERFLOW);
		ctx.log.f64(r.value);
		ctx.log.u64(r.evals);
		ctx.log.u64(r.pthash);
		// 1. containment
		if(!r.contained)
		{
			if(r.bad_axis < 0)
				ctx.violate("C14:containment:dimension", fmt("integrand called with %d coordinates for a %d-dimensional region; %s", r.bad_size, c.ndim, describe(c).c_str()));
			ctx.violate(c.frontend == 4 ? "C14:containment:spherical-frontend" : c.frontend ? "C14:containment:frontend-axis" : "C14:containment", fmt("sample coordinate %d = %.17g lies outside its axis limits [%.17g,%.17g]; %s", r.bad_axis, r.bad_value, c.lo[r.bad_axis], c.hi[r.bad_axis], describe(c).c_str()));
		}
		// 2. entropy: exactly one device draw per call, nothing else
		if(r.inner_bad)
			ctx.violate("C14:containment:nested", fmt("%llu samples of the integrations nested inside the integrand left their own region [2,2.5]x[-1,3]; %s", (unsigned long long) r.inner_bad, describe(c).c_str()));
		// the random seed of a call is what std::random_device delivers during it (any number of draws); clocks, rand() etc. are not
		if(r.entropy_draws < 1 || entropy_other_sources())
			ctx.violate("C14:entropy-use", fmt("call drew %llu values from std::random_device and %llu from clocks/rand (expected >=1 and 0); %s", (unsigned long long) r.entropy_draws, (unsigned long long) entropy_other_sources(), describe(c).c_str()));
		// 3. budget
		double ratio = (double) r.evals / c.ncalls;
		ctx.metric_max(M_BUDGET_RATIO, ratio);
		if(ratio > 6.0 || r.evals == 0)
			ctx.violate("C14:budget", fmt("%llu integrand evaluations for a budget of %d; %s", (unsigned long long) r.evals, c.ncalls, describe(c).c_str()));
		Integrand F(c);
		// 4. constants are integrated exactly to rounding
		if(c.family == 6)
			ctx.probe(P_NESTED);
		if((c.family == 0 || c.family == 6) && c.frontend != 4)
		{
			ctx.probe(P_CONST_CHECKED);
			double ex  = (double) F.exact;
			double err = std::fabs(r.value - ex);
			double tol = 1e-9 * std::fabs(ex) + 1e-300;
			ctx.metric_max(M_CONST_ERR, err / tol);
			if(!(err <= tol))
				ctx.violate("C14:constant-exactness", fmt("constant %.17g over volume %.17Lg: got %.17g, expected %.17g; %s", F.scale, F.volume, r.value, ex, describe(c).c_str()));
		}
		else if(!std::isfinite(r.value))
			ctx.violate("C14:non-finite", fmt("result %g; %s", r.value, describe(c).c_str()));
		// 5. accuracy on regular smooth integrands
		if(judged_accuracy && F.smooth && F.sigma > 0)
		{
			double ne = n_eff(c, r.evals);
			if(F.sup_dev <= 0.1 * F.sigma * std::sqrt(ne))
			{
				ctx.probe(P_ACCURACY_CHECKED);
				double se = std::fabs((double) F.volume) * F.sigma / std::sqrt(ne);
				double z  = std::fabs(r.value - (double) F.exact) / se;
				ctx.metric_max(M_MAX_Z, z);
				if(z > 6.0)
				{
					// escalation (part of the run, so it replays): 8 further seeds; violated only if >= 2 of the 9 estimates exceed 5 SE
					ctx.probe(P_ESCALATIONS);
					int beyond = 1;
					std::string zs = fmt("%.2f", z);
					for(int k = 0; k < 8; k++)
					{
						uint32_t s2	  = (uint32_t) mix64(((uint64_t) c.seed << 8) + k + 0xE5Cull);
						CallResult r2 = run_call(c, s2);
						ctx.log.f64(r2.value);
						double z2 = std::fabs(r2.value - (double) F.exact) / se;
						zs += fmt(",%.2f", z2);
						if(z2 > 5.0)
							beyond++;
					}
					if(beyond >= 2)
						ctx.violate("C14:accuracy-six-standard-errors", fmt("estimate %.17g vs exact %.17Lg: |z| of 9 seeds in plain-MC standard errors (N_eff=%.0f): %s; %s", r.value, F.exact, ne, zs.c_str(), describe(c).c_str()));
				}
			}
		}
	}

	void run()
	{
		for(size_t k = 0; k < plan.ops.size(); k++)
		{
			CallSpec c;
			if((plan.ops[k].kind == "call" || plan.ops[k].kind == "ensemble") && op_to_spec(plan.ops[k], c))
			{
				specs.push_back(c);
				op_index.push_back((int) k);
			}
		}
		if(specs.empty())
			return;
		size_t n = specs.size();
		solo	 = (CallResult*) mmap(nullptr, sizeof(CallResult) * n, PROT_READ | PROT_WRITE, MAP_SHARED | MAP_ANONYMOUS, -1, 0);
		if(solo == MAP_FAILED)
			ctx.violate("harness:mmap", "mmap failed");
		memset(solo, 0, sizeof(CallResult) * n);
		// Pristine grandchildren: this process has not called libphysica yet, so a fork of it is a fresh process image.
		for(size_t k = 0; k < n; k++)
			if(specs[k].solo && !specs[k].ensemble && !specs[k].abort_at)
			{
				fflush(nullptr);
				pid_t pid = fork();
				if(pid == 0)
				{
					alarm((unsigned) ctx.opts->timeout_s);
					solo[k] = run_call(specs[k], specs[k].seed);
					_exit(0);
				}
				int st = 0;
				while(waitpid(pid, &st, 0) < 0) {}
				if(!solo[k].finished)
				{
					ctx.begin_op(op_index[k]);
					ctx.violate("C14:terminated-on-valid-request", fmt("integrator call alone in a pristine process did not return (status %d); %s", st, describe(specs[k]).c_str()));
				}
			}
		// The history itself.
		bool dims_differ = false, methods_differ = false;
		results.resize(n);
		for(size_t k = 0; k < n; k++)
		{
			const CallSpec& c = specs[k];
			ctx.on_thread(plan.ops[op_index[k]].t, [&] {
			ctx.begin_op(op_index[k]);
			ctx.log.u64(k);
			if(c.ensemble)
			{
				run_ensemble(c);
				return;
			}
			if(k >= 19)
				ctx.probe(P_LONG_HISTORY);
			results[k] = run_call(c, c.seed);
			check_single(c, results[k], true);
			for(size_t q = 0; q < k; q++)
			{
				if(specs[q].ndim != c.ndim)
					dims_differ = true;
				if(specs[q].method != c.method)
					methods_differ = true;
			}
			uint32_t st = (uint32_t) c.method;
			st			= st * 7 + (uint32_t) c.ndim;
			st			= st * 5 + (c.ncalls >= 1000000 ? 4 : c.ncalls >= 100000 ? 3 : c.ncalls >= 10000 ? 2 : c.ncalls >= 3000 ? 1 : 0);
			st			= st * 4 + (k ? (uint32_t) specs[k - 1].method + 1 : 0);
			st			= st * 7 + (k ? (uint32_t) specs[k - 1].ndim : 0);
			st			= st * 4 + (k >= 6 ? 3 : k >= 3 ? 2 : k >= 1 ? 1 : 0);
			ctx.state(st);
			// repeated call inside the history: same arguments and seed must give the same bits
			for(size_t q = 0; q < k; q++)
				if(!specs[q].ensemble && !specs[q].abort_at && !c.abort_at && plan.ops[op_index[q]].d == plan.ops[op_index[k]].d && specs[q].method == c.method && specs[q].frontend == c.frontend && specs[q].ncalls == c.ncalls && specs[q].family == c.family && specs[q].seed == c.seed)
				{
					ctx.probe(P_DUP_COMPARED);
					if(!same_bits(results[q].value, results[k].value) || results[q].evals != results[k].evals || results[q].pthash != results[k].pthash)
						ctx.violate("C14:history:repeat-differs", fmt("the same call with the same seed gave %.17g (%llu evaluations) as call #%zu and %.17g (%llu evaluations) as call #%zu of the history; %s", results[q].value, (unsigned long long) results[q].evals, q, results[k].value, (unsigned long long) results[k].evals, k, describe(c).c_str()));
					break;
				}
			if(c.solo && !c.abort_at)
			{
				ctx.probe(P_SOLO_COMPARED);
				if(k >= 1 && dims_differ)
					ctx.probe(P_DIM_CHANGE);
				if(k >= 2 && dims_differ && methods_differ)
					ctx.sh->nontrivial = 1;
				const CallResult& s = solo[k];
				if(!same_bits(s.value, results[k].value) || s.evals != results[k].evals || s.pthash != results[k].pthash)
					ctx.violate(std::string("C14:history:differs-from-pristine:") + (c.method == 0 ? "plain" : c.method == 1 ? "vegas" : "miser"), fmt("after %zu earlier call(s) the result is %.17g (%llu evaluations, sample hash %016llx); alone in a pristine process with the same seed it is %.17g (%llu evaluations, sample hash %016llx); %s", k, results[k].value, (unsigned long long) results[k].evals, (unsigned long long) results[k].pthash, s.value, (unsigned long long) s.evals, (unsigned long long) s.pthash, describe(c).c_str()));
			}
			});
		}
	}

	void run_ensemble(const CallSpec& c)
	{
		Integrand F(c);
		int K = c.ensemble;
		std::vector<double> est;
		uint64_t evals = 0;
		for(int k = 0; k < K; k++)
		{
			uint32_t s	 = (uint32_t) mix64(((uint64_t) c.seed << 8) + k + 0xE75ull);
			CallResult r = run_call(c, s);
			check_single(c, r, false);
			est.push_back(r.value);
			evals = r.evals;
		}
		double ne = n_eff(c, evals);
		if(!(F.smooth && F.sigma > 0 && F.sup_dev <= 0.1 * F.sigma * std::sqrt(ne)))
			return;
		ctx.probe(P_ENSEMBLES);
		long double m = 0, s2 = 0;
		for(double e : est)
			m += e;
		m /= K;
		for(double e : est)
			s2 += ((long double) e - m) * ((long double) e - m);
		double s	  = (double) sqrtl(s2 / (K - 1));
		double se_mc  = std::fabs((double) F.volume) * F.sigma / std::sqrt(ne);
		double spread = std::max(s, 1e-3 * se_mc);	 // never judge against a spread far below what sampling can deliver
		double z	  = (double) fabsl(m - F.exact) / spread;
		ctx.metric_max(M_ENS_Z, z);
		ctx.log.f64((double) m);
		if(z > 4.6)
			ctx.violate("C14:accuracy-ensemble-bias", fmt("mean of %d estimates %.17Lg vs exact %.17Lg: bias is %.2f times the spread %.3g of single estimates; %s", K, m, F.exact, z, spread, describe(c).c_str()));
	}
};

// ---------------------------------------------------------------- generator
struct Gen
{
	Rng r;
	const Opts& opts;
	Gen(uint64_t seed, const Opts& o) : r(mix64(seed ^ 0x6d63ull)), opts(o) {}
	std::vector<double> prev_region;   // region vector {lower..., upper...} of the previous generated call
	CallSpec random_call(uint32_t prev_seed)
	{
		bool thorough = opts.tier == "thorough";
		CallSpec c;
		c.method = (int) r.below(3);
		c.ndim	 = (int) r.pick(std::vector<long long>{1, 1, 2, 2, 3, 3, 4, 5, 6});
		c.frontend = 0;
		if(c.ndim == 2 && r.chance(0.5))
			c.frontend = 2;
		if(c.ndim == 3 && r.chance(0.5))
			c.frontend = r.chance(0.3) ? 4 : 3;
		static const std::vector<long long> BQ = {1000, 1000, 3000, 3000, 3000, 10000, 10000, 10000, 30000, 30000, 100000, 100000, 1000, 3000, 10000, 300000};
		static const std::vector<long long> BT = {1000, 3000, 10000, 10000, 30000, 100000, 100000, 300000, 1000000};
		c.ncalls = (int) r.pick(thorough ? BT : BQ);
		if(!thorough && r.chance(0.02))
			c.ncalls = 1000000;
		if(r.chance(0.2))
		{
			// budgets that are not round numbers: next to powers of two (block sizes of an accumulation scheme), or anything
			int k	 = (int) r.irange(10, thorough ? 19 : 17);
			c.ncalls = r.chance(0.6) ? (1 << k) * (int) r.irange(1, 2) + (int) r.irange(-2, 40) : (int) r.logrange(1000, thorough ? 5e5 : 1.5e5);
			if(r.chance(0.35))
			{
				// exact multiples of a power of two (an accumulation scheme working in blocks has an empty or a full last block)
				int kk	 = (int) r.irange(10, 16);
				c.ncalls = (1 << kk) * (int) r.irange(1, 15);
				while(c.ncalls > (thorough ? 1000000 : 400000))
					c.ncalls /= 2;
			}
			if(c.ncalls < 1000)
				c.ncalls = 1000;
		}
		if(c.ncalls >= 100000 && c.method == 1 && !thorough && r.chance(0.5))
			c.ncalls = 30000;
		c.family = (int) r.pick(std::vector<long long>{0, 0, 1, 1, 2, 2, 3, 3, 4, 4, 5});
		bool by_strata = false;
		if(c.method == 1 && c.ndim <= 3 && r.chance(0.3))
		{
			// Vegas stratifies with ng = floor((ncall/2 + 1/4)^(1/ndim)) cells per axis: choose the budget through ng, uniformly over
			// the values that fit the tier's budget cap, so that every stratification count (and with it every ng/bin-count ratio)
			// is visited instead of the handful that round budgets produce
			double cap = thorough ? 1e6 : 3e5;
			int ng_min = (int) std::ceil(std::pow(500.0, 1.0 / c.ndim)), ng_max = (int) std::floor(std::pow(cap / 2.0, 1.0 / c.ndim));
			if(c.ndim == 1)
				ng_max = std::min(ng_max, 2000);
			int ng	   = (int) r.irange(ng_min, std::max(ng_min, ng_max));
			double lo = 2.0 * std::pow((double) ng, c.ndim), hi = 2.0 * std::pow((double) ng + 1.0, c.ndim) - 1.0;
			c.ncalls  = (int) std::min(cap, std::max(1000.0, std::floor(r.range(lo, std::min(hi, lo * 1.06 + 40)))));
			c.family  = (int) r.pick(std::vector<long long>{1, 2, 4, 1, 2, 4, 0});
			by_strata = true;
		}
		if(!by_strata && c.ncalls >= 250000 && r.chance(0.5))
			c.family = 0;	// the exactness clause is the sharpest oracle there is for the expensive large-budget calls
		switch(r.below(8))
		{
			case 0: c.seed = 0; break;
			case 1: c.seed = 1; break;
			case 2: c.seed = 0xffffffffu; break;
			case 3: c.seed = prev_seed; break;
			default: c.seed = (uint32_t) r.next(); break;
		}
		for(int j = 0; j < c.ndim; j++)
		{
			double off = r.chance(0.3) ? 0.0 : r.chance(0.5) ? r.range(-1, 1) : r.range(-1000, 1000);
			double w   = r.chance(0.3) ? 1.0 : r.logrange(1e-3, 1e3);
			double lo = off, hi = off + w;
			if(!(hi > lo))
				hi = lo + 1;
			c.lo.push_back(lo);
			c.hi.push_back(hi);
		}
		if(c.frontend != 4 && r.chance(0.08))
		{
			// rare-condition bias: a narrow axis far from the origin (width 1e-3..1e-2 at |offset| 300..1000, i.e. 3e4..1e6 widths
			// away), low dimension, and a budget that lets recursive methods bisect it many times. Absolute and relative scales of
			// the coordinates then differ by many orders of magnitude, inside the stated ranges of offsets and widths.
			if(c.ndim > 2)
			{
				c.ndim	   = (int) r.irange(1, 2);
				c.frontend = (c.ndim == 2 && r.chance(0.5)) ? 2 : 0;
				c.lo.resize(c.ndim);
				c.hi.resize(c.ndim);
			}
			int j	 = (int) r.below((uint64_t) c.ndim);
			double w = r.logrange(1e-3, 1e-2), off = r.sign() * r.range(300, 1000);
			c.lo[j] = off, c.hi[j] = off + w;
			if(r.chance(0.6))
				c.method = 2;
			c.ncalls = (int) r.pick(thorough ? std::vector<long long>{10000, 100000, 300000, 1000000, 1000000} : std::vector<long long>{10000, 30000, 100000, 300000, 300000, 1000000});
			if(c.method == 1 && c.ncalls > 100000)
				c.ncalls = 100000;
			c.family = (int) r.pick(std::vector<long long>{0, 2, 3, 3, 1});
		}
		if(c.frontend != 4 && !prev_region.empty() && r.chance(0.06))
		{
			// related requests: this call's region vector {lower..., upper...} is the leading part of the previous call's vector
			// (fewer dimensions), or the previous vector extended by further entries (more dimensions). A key that compares only
			// as many entries as the shorter of two vectors takes the one for the other.
			int pd = (int) prev_region.size() / 2;
			if(pd > 1 && r.chance(0.7))
			{
				int nd = (int) r.irange(1, pd - 1);
				std::vector<double> lo(prev_region.begin(), prev_region.begin() + nd), hi(prev_region.begin() + nd, prev_region.begin() + 2 * nd);
				bool ok = true;
				for(int j = 0; j < nd; j++)
					if(lo[j] == hi[j])
						ok = false;
				if(ok)
				{
					c.ndim = nd, c.lo = lo, c.hi = hi;
					c.frontend = 0;
				}
			}
			else if(pd < 6)
			{
				int nd = (int) r.irange(pd + 1, std::min(6, pd + 2));
				std::vector<double> v = prev_region;
				while((int) v.size() < 2 * nd)
					v.push_back(v.back() + r.logrange(1e-2, 1e2));
				c.ndim = nd;
				c.lo.assign(v.begin(), v.begin() + nd);
				c.hi.assign(v.begin() + nd, v.end());
				c.frontend = 0;
				for(int j = 0; j < nd; j++)
					if(c.lo[j] == c.hi[j])
						c.hi[j] = c.lo[j] + 1.0;
			}
			if(c.method == 1 && c.ndim >= 4)
				c.ncalls = std::min(c.ncalls, 30000);
		}
		if(c.frontend != 4 && r.chance(0.15))
		{
			// some axes in descending order (the result changes sign once per reversed axis)
			for(int j = 0; j < c.ndim; j++)
				if(r.chance(0.5))
					std::swap(c.lo[j], c.hi[j]);
		}
		if(c.frontend == 4)
		{
			// r in [r1,r2], cos(theta) in [-1,1], phi in [0,2 pi]: sub-ranges in most runs, the full sphere in some
			c.family = 0;
			double r1 = r.chance(0.3) ? 0.0 : r.logrange(1e-3, 1e3), r2 = r1 + r.logrange(1e-3, 1e3);
			double c1 = r.chance(0.3) ? -1.0 : r.range(-1, 0.9), c2 = r.chance(0.3) ? 1.0 : r.range(c1 + 0.05, 1.0);
			double p1 = r.chance(0.3) ? 0.0 : r.range(0, 5.5), p2 = r.chance(0.3) ? 2 * M_PI : r.range(p1 + 0.05, 2 * M_PI);
			p2		  = std::min(p2, 2 * M_PI);
			if(r.chance(0.35))
			{
				// other azimuth conventions: (-pi, pi], a wedge across phi = 0, intervals shifted by whole turns
				int w = (int) r.below(3);
				if(w == 0)
					p1 = -M_PI + (r.chance(0.5) ? 0.0 : r.range(0, 1.5)), p2 = r.chance(0.5) ? M_PI : r.range(p1 + 0.05, M_PI);
				else if(w == 1)
					p1 = r.range(4.0, 6.2), p2 = p1 + r.range(0.3, 3.0);
				else
				{
					double shift = 2 * M_PI * (double) r.irange(-1, 1);
					p1 += shift, p2 += shift;
				}
			}
			c.lo = {r1, c1, p1};
			c.hi = {r2, std::min(c2, 1.0), p2};
		}
		if(c.frontend != 4 && r.chance(0.05))
		{
			// iterated integral: the integrand runs its own (plain or Miser) integration; keep the outer budget small
			c.family = 6;
			c.ncalls = (int) r.pick(std::vector<long long>{1000, 1000, 2000, 3000});
		}
		for(int j = 0; j < c.ndim; j++)
		{
			double p0 = 0, p1 = 0, p2 = 0, p3 = 0;
			if(c.family == 6 && j == 0)
				p0 = r.chance(0.7) ? 1.0 : 0.0;	  // inner method: Miser or plain
			switch(c.family)
			{
				case 1: p0 = r.range(-3, 3); break;
				case 2:
					p0 = r.range(0.1, 0.9);
					p1 = r.range(0.2, 1.0);
					break;
				case 3:
					p0 = r.range(0.1, 0.9);
					p1 = r.logrange(0.002, 0.05);
					break;
				case 4:
					p0 = r.range(-1, 1), p1 = r.range(-2, 2), p2 = r.range(-2, 2), p3 = r.range(-2, 2);
					if(r.chance(0.5))
						p0 += 3;   // keep away from zero mean in half of the cases
					break;
				case 5:
					p0 = r.range(0.1, 0.9), p1 = r.range(-2, 2), p2 = r.range(-2, 2);
					break;
				default: break;
			}
			c.par.insert(c.par.end(), {p0, p1, p2, p3});
		}
		double scale = 1.0;
		switch(r.below(6))
		{
			case 0: scale = 0.0; break;
			case 1: scale = -1.5; break;
			case 2: scale = r.sign() * r.logrange(1e-6, 1e6); break;
			default: scale = 1.0; break;
		}
		if(c.family != 0 && scale == 0.0)
			scale = 2.0;
		c.par.push_back(scale);
		prev_region = c.lo;
		prev_region.insert(prev_region.end(), c.hi.begin(), c.hi.end());
		return c;
	}
	Plan generate()
	{
		Plan p;
		bool thorough = opts.tier == "thorough";
		int ncl		  = (int) r.irange(1, 3);
		int total	  = (int) r.irange(2, thorough ? 12 : 9);
		// some histories are long and cheap: whatever accumulates over many integrations in one process gets its chance
		bool long_history = r.chance(0.08);
		if(long_history)
			total = (int) r.irange(20, thorough ? 64 : 48);
		// each client owns a list of requests; the scheduler interleaves them into one history
		std::vector<std::vector<CallSpec>> lists(ncl);
		uint32_t prev = 12345;
		std::vector<CallSpec> pool;
		for(int k = 0; k < total; k++)
		{
			CallSpec c = random_call(prev);
			prev	   = c.seed;
			if(long_history)
			{
				c.ncalls = (int) r.pick(std::vector<long long>{1000, 1000, 2000, 3000});
				if(c.family == 6)
					c.family = 0;
			}
			// a client sometimes re-issues one of the earlier requests verbatim (same seed): repeat-inside-history oracle
			if(!pool.empty() && r.chance(0.15))
				c = pool[r.below(pool.size())];
			pool.push_back(c);
			lists[r.below(ncl)].push_back(c);
		}
		std::vector<size_t> pos(ncl, 0);
		std::vector<CallSpec> hist;
		while((int) hist.size() < total)
		{
			int cl = (int) r.below(ncl);
			if(pos[cl] < lists[cl].size())
				hist.push_back(lists[cl][pos[cl]++]);
		}
		// Miser after a history that advanced its private generator, peaked integrand: reaches the "no split candidate" branch
		if(r.chance(0.35))
		{
			CallSpec c = random_call(prev);
			c.method   = 2;
			c.family   = 3;
			c.ndim	   = (int) r.irange(2, 4);
			c.frontend = 0;
			c.lo.assign(c.ndim, 0.0);
			c.hi.assign(c.ndim, 1.0);
			c.par.clear();
			for(int j = 0; j < c.ndim; j++)
				c.par.insert(c.par.end(), {r.range(0.2, 0.8), r.logrange(0.001, 0.01), 0.0, 0.0});
			c.par.push_back(1.0);
			c.ncalls = (int) r.pick(std::vector<long long>{3000, 10000, 20000});
			hist.push_back(c);
		}
		// fault: in some histories one call is abandoned half-way by its integrand (exception); a later verbatim repeat of the
		// same request, and everything after it, must not notice
		if(hist.size() >= 2 && r.chance(0.2))
		{
			size_t k	  = r.below(hist.size() - 1);
			CallSpec full = hist[k];
			if(!full.ensemble && full.family != 6)
			{
				hist[k].abort_at = 1 + (long long) r.below((uint64_t) std::max(2, full.ncalls / 2));
				hist[k].solo	 = 0;
				full.solo		 = 1;
				hist.insert(hist.begin() + k + 1 + r.below(hist.size() - k), full);
			}
		}
		// compared calls: the last one and two others
		hist.back().solo = 1;
		for(int q = 0; q < 2; q++)
		{
			CallSpec& h = hist[r.below(hist.size())];
			if(!h.abort_at)
				h.solo = 1;
		}
		// ensemble bias test (thorough tier, some runs): K seeds of one smooth request
		if(thorough && r.chance(0.25))
		{
			CallSpec c = random_call(prev);
			c.family   = (int) r.pick(std::vector<long long>{1, 2, 4});
			c.par.clear();
			for(int j = 0; j < c.ndim; j++)
			{
				if(c.family == 1)
					c.par.insert(c.par.end(), {r.range(-3, 3), 0, 0, 0});
				else if(c.family == 2)
					c.par.insert(c.par.end(), {r.range(0.1, 0.9), r.range(0.2, 1.0), 0, 0});
				else
					c.par.insert(c.par.end(), {r.range(2, 4), r.range(-2, 2), r.range(-2, 2), r.range(-2, 2)});
			}
			c.par.push_back(1.0);
			c.ncalls   = (int) r.pick(std::vector<long long>{3000, 10000, 30000});
			c.ensemble = 32;
			c.solo	   = 0;
			hist.insert(hist.begin() + r.below(hist.size()), c);
		}
		for(auto& c : hist)
			p.ops.push_back(spec_to_op(c));
		return p;
	}
};

struct McEngine : Engine
{
	const char* name() const override { return "mc"; }
	std::vector<std::string> probe_names() const override { return std::vector<std::string>(PROBE_NAMES, PROBE_NAMES + P_NPROBES); }
	std::vector<std::string> metric_names() const override { return {"max_abs_z_in_plain_mc_standard_errors", "worst_constant_error_over_allowed", "max_evaluations_over_budget", "max_ensemble_bias_over_spread"}; }
	int default_runs(const Opts& o) const override { return o.tier == "thorough" ? 6000 : 600; }
	Plan generate(uint64_t seed, const Opts& o) override { return Gen(seed, o).generate(); }
	void execute(const Plan& p, Ctx& ctx) override { Exec(ctx, p).run(); }
	std::vector<Plan> simplify(const Plan& p) const override
	{
		std::vector<Plan> out;
		// reduce budgets, turn off solo flags on non-final calls, unit regions
		for(size_t k = 0; k < p.ops.size(); k++)
		{
			CallSpec c;
			if(!op_to_spec(p.ops[k], c))
				continue;
			if(c.ncalls > 1000)
			{
				Plan q	 = p;
				c.ncalls = std::max(1000, c.ncalls / 10);
				q.ops[k] = spec_to_op(c);
				out.push_back(q);
				op_to_spec(p.ops[k], c);
			}
			if(c.ensemble > 8)
			{
				Plan q	   = p;
				c.ensemble = 8;
				q.ops[k]   = spec_to_op(c);
				out.push_back(q);
				op_to_spec(p.ops[k], c);
			}
			if(k + 1 < p.ops.size() && c.solo)
			{
				Plan q	 = p;
				c.solo	 = 0;
				q.ops[k] = spec_to_op(c);
				out.push_back(q);
				op_to_spec(p.ops[k], c);
			}
			if(c.ndim > 1 && k + 1 < p.ops.size())
			{
				// lower the dimension of a preceding call
				Plan q = p;
				CallSpec d = c;
				d.ndim	   = 1;
				d.frontend = 0;
				d.lo.resize(1);
				d.hi.resize(1);
				std::vector<double> par(c.par.begin(), c.par.begin() + 4);
				par.push_back(c.par.back());
				d.par	 = par;
				q.ops[k] = spec_to_op(d);
				out.push_back(q);
			}
		}
		return out;
	}
};
}	// namespace

sim::Engine* make_mc_engine() { return new McEngine(); }
