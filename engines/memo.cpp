// Engine `memo` (C06, history clause only): Factorial / Binomial_Coefficient share a process-global
// memo table that grows on demand. Each run starts from a pristine process image (table = {1}); 1-3
// client tasks issue requests in scheduler-chosen order; every answer is compared with an exact
// reference and - for flagged ops - with the answer a pristine process gives when asked only that.
#include "../sim/sim.hpp"

#include <sys/mman.h>
#include <sys/wait.h>
#include <unistd.h>

#include "libphysica/Special_Functions.hpp"

using namespace sim;

namespace
{
enum Probe
{
	P_FACT,
	P_BINOM,
	P_BINOM_BIG,
	P_GROW,
	P_ONE_PAST_END,
	P_REPEAT,
	P_AFTER_COMPLETE,
	P_DESCENDING_START,
	P_SOLO,
	P_EXHAUSTIVE_RUNS,
	P_EXHAUSTIVE_HISTORIES,
	P_PASCAL,
	P_NPROBES
};
const char* PROBE_NAMES[] = {"factorial_calls", "binomial_calls_n_le_170", "binomial_calls_n_gt_170(no-memo control)", "call_that_grows_the_table", "request_exactly_one_past_table_end", "repeated_request", "request_after_table_complete", "history_starts_high_then_descends", "history_vs_pristine_process_comparisons", "exhaustive_first_call_sweeps", "exhaustive_first_call_histories", "pascal_and_symmetry_checks"};
enum Metric
{
	M_FACT_ULP,
	M_BINOM_ULP
};

long double ref_factorial(unsigned n)
{
	long double f = 1;
	for(unsigned k = 2; k <= n; k++)
		f *= k;
	return f;
}
long double ref_binom(unsigned n, unsigned k)
{
	if(k > n - k)
		k = n - k;
	long double c = 1;
	for(unsigned i = 1; i <= k; i++)
		c = c * (long double) (n - k + i) / (long double) i;
	return c;
}

struct Exec
{
	Ctx& ctx;
	const Plan& plan;
	unsigned table = 1;	  // coverage mirror of the memo size (never feeds an oracle)
	double seen[171];
	bool have[171];
	Exec(Ctx& c, const Plan& p) : ctx(c), plan(p)
	{
		for(auto& h : have)
			h = false;
	}

	void judge_factorial(unsigned n, double got, const std::string& ctxt)
	{
		long double ref = ref_factorial(n);
		double d		= ulps(got, (double) ref, (double) ref);
		ctx.metric_max(M_FACT_ULP, d);
		if(!(d <= n / 2.0 + 1))
			ctx.violate("C06:factorial-value", fmt("Factorial(%u) = %.17g, reference %.17Lg (%.1f ulp, allowed %.1f) %s", n, got, ref, d, n / 2.0 + 1, ctxt.c_str()));
		if(n <= 22 && got != (double) ref)
			ctx.violate("C06:factorial-value", fmt("Factorial(%u) = %.17g is not the exact integer %.17Lg %s", n, got, ref, ctxt.c_str()));
		if(have[n] && !same_bits(seen[n], got))
			ctx.violate("C06:factorial-history", fmt("Factorial(%u) returned %.17g earlier in this history and %.17g now %s", n, seen[n], got, ctxt.c_str()));
		seen[n] = got;
		have[n] = true;
		// n! = n (n-1)! on library outputs
		if(n >= 1 && have[n - 1] && !(ulps(got, n * seen[n - 1], got) <= 1.0))
			ctx.violate("C06:factorial-recurrence", fmt("Factorial(%u) = %.17g but %u * Factorial(%u) = %.17g %s", n, got, n, n - 1, n * seen[n - 1], ctxt.c_str()));
		if(n < 170 && have[n + 1] && !(ulps(seen[n + 1], (n + 1) * got, seen[n + 1]) <= 1.0))
			ctx.violate("C06:factorial-recurrence", fmt("Factorial(%u) = %.17g but %u * Factorial(%u) = %.17g %s", n + 1, seen[n + 1], n + 1, n, (n + 1) * got, ctxt.c_str()));
	}

	double call_factorial(unsigned n)
	{
		ctx.probe(P_FACT);
		ctx.state(n * 3 + (n >= table ? 0u : have[n] ? 1u : 2u));
		if(n >= table)
		{
			ctx.probe(P_GROW);
			if(n == table)
				ctx.probe(P_ONE_PAST_END);
			table = n + 1;
		}
		else if(have[n])
			ctx.probe(P_REPEAT);
		if(table == 171)
			ctx.probe(P_AFTER_COMPLETE);
		double v = libphysica::Factorial(n);
		ctx.log.f64(v);
		return v;
	}

	void judge_binom(unsigned n, unsigned k, double got, const std::string& ctxt)
	{
		long double ref = ref_binom(n, k);
		// (The value accuracy of Binomial_Coefficient is an input property and not decided here; the comparison with the
		// reference is a sanity bound that a corrupted or mis-indexed memo table cannot meet. Exhaustive survey of the
		// unchanged tree over all n<=170: at most 7 ulp from the reference, 4 ulp for symmetry and Pascal's rule.)
		double d = ulps(got, (double) ref, (double) ref);
		ctx.metric_max(M_BINOM_ULP, d);
		if(!(d <= 16.0))
			ctx.violate("C06:binomial-value", fmt("Binomial_Coefficient(%u,%u) = %.17g, reference %.17Lg (%.1f ulp, allowed 16) %s", n, k, got, ref, d, ctxt.c_str()));
	}

	void do_binom(unsigned n, unsigned k)
	{
		if(n > 170)
		{
			// no-memo control path (GammaLn): only purity is checked here - its accuracy is not part of the history clause
			ctx.probe(P_BINOM_BIG);
			double a = libphysica::Binomial_Coefficient((int) n, (int) k), b = libphysica::Binomial_Coefficient((int) n, (int) k);
			ctx.log.f64(a);
			if(!same_bits(a, b) || !std::isfinite(a))
				ctx.violate("C06:binomial-purity", fmt("Binomial_Coefficient(%u,%u) returned %.17g and then %.17g", n, k, a, b));
			return;
		}
		ctx.probe(P_BINOM);
		table = std::max(table, n + 1);
		double c = libphysica::Binomial_Coefficient((int) n, (int) k);
		ctx.log.f64(c);
		std::string w = fmt("[op %d]", ctx.cur);
		judge_binom(n, k, c, w);
		double s = libphysica::Binomial_Coefficient((int) n, (int) (n - k));
		ctx.probe(P_PASCAL);
		if(!(ulps(c, s, c) <= 8.0))
			ctx.violate("C06:binomial-symmetry", fmt("C(%u,%u) = %.17g but C(%u,%u) = %.17g %s", n, k, c, n, n - k, s, w.c_str()));
		if(n >= 1 && k >= 1 && k <= n - 1)
		{
			double a = libphysica::Binomial_Coefficient((int) n - 1, (int) k - 1), b = libphysica::Binomial_Coefficient((int) n - 1, (int) k);
			if(!(ulps(c, a + b, c) <= 8.0))
				ctx.violate("C06:binomial-pascal", fmt("C(%u,%u) = %.17g but C(%u,%u)+C(%u,%u) = %.17g %s", n, k, c, n - 1, k - 1, n - 1, k, a + b, w.c_str()));
		}
	}

	// every "first call is n" history, each in its own pristine process, followed by three follow-up patterns
	void exhaustive()
	{
		ctx.probe(P_EXHAUSTIVE_RUNS);
		struct Rec
		{
			double solo[171];
			int32_t bad;
			char msg[400];
		};
		Rec* rec = (Rec*) mmap(nullptr, sizeof(Rec), PROT_READ | PROT_WRITE, MAP_SHARED | MAP_ANONYMOUS, -1, 0);
		memset(rec, 0, sizeof(Rec));
		for(unsigned n = 0; n <= 170; n++)
		{
			pid_t pid = fork();
			if(pid == 0)
			{
				alarm(60);
				rec->solo[n] = libphysica::Factorial(n);
				_exit(0);
			}
			int st;
			while(waitpid(pid, &st, 0) < 0) {}
			if(!WIFEXITED(st) || WEXITSTATUS(st) != 0)
				ctx.violate("C06:terminated-on-valid-request", fmt("Factorial(%u) as the first call of a pristine process ended the process (status %d)", n, st));
			judge_factorial(n, rec->solo[n], "[first call in a pristine process]");
			have[n] = false;   // the table of *this* process has not been touched
		}
		for(unsigned n = 0; n <= 170; n++)
			for(int pattern = 0; pattern < 3; pattern++)
			{
				ctx.probe(P_EXHAUSTIVE_HISTORIES);
				pid_t pid = fork();
				if(pid == 0)
				{
					alarm(60);
					auto check = [&](unsigned m) {
						double v = libphysica::Factorial(m);
						if(!same_bits(v, rec->solo[m]) && !rec->bad)
						{
							rec->bad = 1;
							snprintf(rec->msg, sizeof rec->msg, "history 'first call Factorial(%u), pattern %d': Factorial(%u) = %.17g, a pristine process asked only that returns %.17g", n, pattern, m, v, rec->solo[m]);
						}
					};
					check(n);
					if(pattern == 0)
						for(unsigned m = n + 1; m <= std::min(170u, n + 4); m++)
							check(m);
					else if(pattern == 1)
						for(unsigned m = n; m-- > (n > 4 ? n - 4 : 0);)
							check(m);
					else
					{
						uint64_t h = mix64(n);
						for(int q = 0; q < 6; q++)
						{
							h = mix64(h);
							check((unsigned) (h % 171));
						}
						check(n);
					}
					_exit(0);
				}
				int st;
				while(waitpid(pid, &st, 0) < 0) {}
				if(!WIFEXITED(st) || WEXITSTATUS(st) != 0)
					ctx.violate("C06:terminated-on-valid-request", fmt("history starting with Factorial(%u) (pattern %d) ended the process (status %d)", n, pattern, st));
				if(rec->bad)
					ctx.violate("C06:factorial-history", rec->msg);
			}
		ctx.sh->nontrivial = 1;
	}

	void run()
	{
		// pristine answers for the flagged ops (this process has not called libphysica yet)
		double* solo = (double*) mmap(nullptr, sizeof(double) * (plan.ops.size() + 1), PROT_READ | PROT_WRITE, MAP_SHARED | MAP_ANONYMOUS, -1, 0);
		for(size_t k = 0; k < plan.ops.size(); k++)
		{
			const Op& o = plan.ops[k];
			if((o.kind == "fact" && o.i.size() >= 2 && o.i[1]) || (o.kind == "binom" && o.i.size() >= 3 && o.i[2]))
			{
				pid_t pid = fork();
				if(pid == 0)
				{
					alarm(60);
					solo[k] = o.kind == "fact" ? libphysica::Factorial((unsigned) o.i[0]) : libphysica::Binomial_Coefficient((int) o.i[0], (int) o.i[1]);
					_exit(0);
				}
				int st;
				while(waitpid(pid, &st, 0) < 0) {}
				if(!WIFEXITED(st) || WEXITSTATUS(st) != 0)
				{
					ctx.begin_op((int) k);
					ctx.violate("C06:terminated-on-valid-request", fmt("%s(%lld...) alone in a pristine process ended the process (status %d)", o.kind.c_str(), o.i[0], st));
				}
			}
		}
		bool first = true, started_high = false;
		size_t distinct = 0;
		for(size_t k = 0; k < plan.ops.size(); k++)
		{
			const Op& o = plan.ops[k];
			ctx.on_thread(o.t, [&] {
			ctx.begin_op((int) k);
			if(o.kind == "fact")
			{
				unsigned n = (unsigned) std::min(170ll, std::max(0ll, o.i.at(0)));
				if(first && n >= 100)
					started_high = true;
				if(!first && started_high && n < 100 && !have[n])
					ctx.probe(P_DESCENDING_START);
				first = false;
				if(!have[n])
					distinct++;
				double v = call_factorial(n);
				judge_factorial(n, v, fmt("[op %zu]", k));
				if(o.i.size() >= 2 && o.i[1])
				{
					ctx.probe(P_SOLO);
					if(!same_bits(v, solo[k]))
						ctx.violate("C06:factorial-history", fmt("Factorial(%u) = %.17g at op %zu of this history; a pristine process asked only that returns %.17g", n, v, k, solo[k]));
				}
			}
			else if(o.kind == "binom")
			{
				first = false;
				unsigned n = (unsigned) o.i.at(0), kk = (unsigned) o.i.at(1);
				if(o.i.size() >= 3 && o.i[2])
				{
					// history oracle for binomials (both the memo path n<=170 and the n>170 path): the first thing this op does is
					// the flagged call itself, compared bit for bit with a pristine process asked only that
					ctx.probe(P_SOLO);
					double v = libphysica::Binomial_Coefficient((int) n, (int) kk);
					ctx.log.f64(v);
					if(!same_bits(v, solo[k]))
						ctx.violate("C06:binomial-history", fmt("Binomial_Coefficient(%u,%u) = %.17g at op %zu of this history; a pristine process asked only that returns %.17g", n, kk, v, k, solo[k]));
				}
				do_binom(n, kk);
			}
			else if(o.kind == "exhaustive")
				exhaustive();
			});
		}
		if(distinct >= 5)
			ctx.sh->nontrivial = 1;
	}
};

struct Gen
{
	Rng r;
	const Opts& opts;
	Gen(uint64_t seed, const Opts& o) : r(mix64(seed ^ 0x6d656d6full)), opts(o) {}
	Plan generate()
	{
		Plan p;
		bool thorough = opts.tier == "thorough";
		if(r.chance(thorough ? 0.05 : 0.02))
		{
			p.ops.push_back(Op("exhaustive"));
			return p;
		}
		int ncl = (int) r.irange(1, 3);
		struct Client
		{
			int mode;
			long cur;
		};
		std::vector<Client> cl(ncl);
		for(auto& c : cl)
		{
			c.mode = (int) r.below(5);	 // 0 ascending 1 descending 2 random 3 one-past-end 4 binomials
			c.cur  = c.mode == 1 ? r.irange(100, 170) : r.irange(0, 30);
		}
		long nops  = r.chance(0.3) ? r.irange(2, 12) : r.irange(12, 200);
		long table = 1;
		if(r.chance(0.15))
		{
			p.ops.push_back(Op("fact", {170, 0}));	 // complete the table first
			table = 171;
		}
		for(long k = 0; k < nops; k++)
		{
			Client& c = cl[r.below(ncl)];
			long n;
			switch(c.mode)
			{
				case 0: n = c.cur = std::min(170l, c.cur + (long) r.irange(0, 3)); break;
				case 1: n = c.cur = std::max(0l, c.cur - (long) r.irange(0, 3)); break;
				case 2: n = r.irange(0, 170); break;
				case 3: n = std::min(170l, table); break;
				default: n = -1; break;
			}
			if(n >= 0)
			{
				p.ops.push_back(Op("fact", {n, 0}));
				table = std::max(table, n + 1);
			}
			else
			{
				long nn = r.chance(0.85) ? r.irange(0, 170) : r.irange(171, 400);
				long kk = r.irange(0, nn);
				if(r.chance(0.2) && !p.ops.empty() && p.ops.back().kind == "binom")
				{
					// the previous request with one argument moved by a power of two (or n by one): arguments that collide in
					// anything that packs, hashes or truncates them
					nn = p.ops.back().i[0];
					kk = p.ops.back().i[1];
					long step = 1l << r.irange(0, 8);
					if(r.chance(0.7))
						kk += r.chance(0.5) ? step : -step;
					else
						nn += r.chance(0.5) ? 1 : -1;
					if(r.chance(0.3))
						nn += r.chance(0.5) ? 1 : -1;
					nn = std::max(0l, std::min(400l, nn));
					kk = std::max(0l, std::min(nn, kk));
				}
				if(r.chance(0.3))
					kk = r.chance(0.5) ? r.irange(0, std::min(3l, nn)) : nn - r.irange(0, std::min(3l, nn));
				if(nn > 170 && r.chance(0.5) && !p.ops.empty() && p.ops.back().kind == "binom")
					nn = (long) std::min(400ll, std::max(171ll, p.ops.back().i[0] + (long long) r.irange(-2, 2)));	  // neighbouring n, as a sweep would ask
				kk = std::min(kk, nn);
				p.ops.push_back(Op("binom", {nn, kk, 0}));
				if(nn <= 170)
					table = std::max(table, nn + 1);
			}
		}
		// flag up to 8 factorial and 6 binomial ops for the pristine-process comparison
		std::vector<size_t> facts, binoms;
		for(size_t k = 0; k < p.ops.size(); k++)
		{
			if(p.ops[k].kind == "fact")
				facts.push_back(k);
			if(p.ops[k].kind == "binom")
				binoms.push_back(k);
		}
		for(int q = 0; q < 8 && !facts.empty(); q++)
			p.ops[facts[r.below(facts.size())]].i[1] = 1;
		if(!facts.empty())
			p.ops[facts.back()].i[1] = 1;
		for(int q = 0; q < 12 && !binoms.empty(); q++)
			p.ops[binoms[r.below(binoms.size())]].i[2] = 1;
		return p;
	}
};

struct MemoEngine : Engine
{
	const char* name() const override { return "memo"; }
	std::vector<std::string> probe_names() const override { return std::vector<std::string>(PROBE_NAMES, PROBE_NAMES + P_NPROBES); }
	std::vector<std::string> metric_names() const override { return {"worst_factorial_ulp", "worst_binomial_ulp"}; }
	int default_runs(const Opts& o) const override { return o.tier == "thorough" ? 20000 : 2000; }
	Plan generate(uint64_t seed, const Opts& o) override { return Gen(seed, o).generate(); }
	void execute(const Plan& p, Ctx& ctx) override { Exec(ctx, p).run(); }
};
}	// namespace

sim::Engine* make_memo_engine() { return new MemoEngine(); }
