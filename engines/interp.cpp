// Engine `interp` (C09, C08): one Interpolation / Interpolation_2D object shared by several
// client tasks, copies taken at arbitrary plan positions; every query is compared op-by-op with
// freshly constructed objects (C09) or with a reference computed from the interpolated curve
// itself (C08). Real code: libphysica::Interpolation, Interpolation_2D. No stubs.
#include "../sim/sim.hpp"
#include "../sim/preempt.hpp"

#include <algorithm>
#include <memory>
#include <sys/wait.h>
#include <unistd.h>

#include "libphysica/Numerics.hpp"

using namespace sim;
using libphysica::Interpolation;
using libphysica::Interpolation_2D;

namespace
{
enum Probe
{
	P_HUNT_UP,
	P_HUNT_DOWN,
	P_BISECT,
	P_SAME,
	P_ZONE,
	P_KNOT_Q,
	P_KNOT_CORR,
	P_NEXTAFTER_Q,
	P_COPY,
	P_ASSIGN_OTHER,
	P_SELF_ASSIGN,
	P_MOVE,
	P_PREF_NEG,
	P_PREF_TINYHUGE,
	P_EXT_SPAN3,
	P_EXT_ZONE,
	P_INTEG_MULTI,
	P_INTEG_REVERSED,
	P_Q_UNDER_PREF,
	P_Q_UNDER_NEG,
	P_2D_RUN,
	P_COMPARISONS,
	P_BIT_EXACT,
	P_TOL_COMPARE,
	P_SWEEP,
	P_BIGN,
	P_PRISTINE,
	P_CROSS_TABLE,
	P_MOVE_ASSIGN,
	P_SWAP,
	P_ZERO_PREF,
	P_EXCURSION,
	P_DETOUR,
	P_CONC,
	P_CONC_POINTS,
	P_CONC_SWITCHES,
	P_NPROBES
};
const char* PROBE_NAMES[] = {"locate_hunt_up", "locate_hunt_down", "locate_bisection", "locate_same_segment", "locate_extrapolation_zone", "query_at_knot", "query_at_knot_while_correlated", "query_at_nextafter_of_knot", "copy_construct", "assign_into_object_of_other_table", "self_assign", "copy_then_destroy_original", "prefactor_negative_set", "prefactor_tiny_or_huge_set", "extremum_query_spanning_3plus_knots", "extremum_or_integral_limit_in_extrapolation_zone", "integral_spanning_many_pieces", "integral_reversed_limits", "query_under_prefactor_not_1", "query_under_negative_prefactor", "run_is_2d", "oracle_comparisons", "bit_exact_comparisons", "tolerance_comparisons_at_knots", "sweep_ops", "table_200_or_more_points", "comparisons_with_a_pristine_process", "same_argument_asked_of_another_table_first", "move_assignment", "swap_of_two_objects", "query_under_zero_prefactor", "prefactor_excursion_to_1e+-150..290_and_back", "object_assigned_another_table_and_back_from_an_unevaluated_backup", "pairs_of_query_sequences_run_on_two_threads_at_once", "scheduling_points_(static_storage_accesses)_inside_paired_calls", "preemptions_inside_paired_calls"};

enum Metric
{
	M_INTEG_ERR,   // worst |Integrate - reference| in units of the allowed tolerance
	M_EXT_ERR,	   // worst extremum excess in units of the allowed tolerance
	M_KNOT_ULPS,   // worst used-vs-fresh distance at knots in units of the allowed tolerance
	M_NMETRICS
};

struct Table
{
	bool two_d = false;
	double x_dim = -1, y_dim = -1, f_dim = -1;
	std::vector<double> x, y;	// raw abscissae as passed to the constructor (y: 2D only)
	std::vector<double> f;		// raw ordinates (1D) or row-major grid (2D)
	bool table_ctor = false;	// use the std::vector<std::vector<double>> constructor
	// derived, scaled exactly as the constructor scales them
	std::vector<double> xs, ys, fs;
	void derive()
	{
		xs = x;
		ys = y;
		fs = f;
		if(x_dim > 0)
			for(auto& v : xs)
				v *= x_dim;
		if(y_dim > 0)
			for(auto& v : ys)
				v *= y_dim;
		if(f_dim > 0)
			for(auto& v : fs)
				v *= f_dim;
	}
	size_t N() const { return xs.size(); }
};

Interpolation make1d(const Table& t)
{
	if(t.table_ctor)
	{
		std::vector<std::vector<double>> data;
		for(size_t i = 0; i < t.x.size(); i++)
			data.push_back({t.x[i], t.f[i]});
		return Interpolation(data, t.x_dim, t.f_dim);
	}
	return Interpolation(t.x, t.f, t.x_dim, t.f_dim);
}
Interpolation_2D make2d(const Table& t)
{
	size_t nx = t.x.size(), ny = t.y.size();
	if(t.table_ctor)
	{
		std::vector<std::vector<double>> data;
		for(size_t i = 0; i < nx; i++)
			for(size_t j = 0; j < ny; j++)
				data.push_back({t.x[i], t.y[j], t.f[i * ny + j]});
		return Interpolation_2D(data, t.x_dim, t.y_dim, t.f_dim);
	}
	std::vector<std::vector<double>> g(nx, std::vector<double>(ny));
	for(size_t i = 0; i < nx; i++)
		for(size_t j = 0; j < ny; j++)
			g[i][j] = t.f[i * ny + j];
	return Interpolation_2D(t.x, t.y, g, t.x_dim, t.y_dim, t.f_dim);
}

Op table_op(const char* kind, const Table& t)
{
	Op o(kind);
	o.i = {(long long) t.x.size(), (long long) t.y.size(), t.two_d ? 1 : 0, t.table_ctor ? 1 : 0};
	o.d = {t.x_dim, t.y_dim, t.f_dim};
	o.d.insert(o.d.end(), t.x.begin(), t.x.end());
	o.d.insert(o.d.end(), t.y.begin(), t.y.end());
	o.d.insert(o.d.end(), t.f.begin(), t.f.end());
	return o;
}
bool table_from_op(const Op& o, Table& t)
{
	if(o.i.size() < 4 || o.d.size() < 3)
		return false;
	size_t nx = (size_t) o.i[0], ny = (size_t) o.i[1];
	t.two_d		 = o.i[2] != 0;
	t.table_ctor = o.i[3] != 0;
	size_t nf	 = t.two_d ? nx * ny : nx;
	if(o.d.size() != 3 + nx + ny + nf)
		return false;
	t.x_dim = o.d[0];
	t.y_dim = o.d[1];
	t.f_dim = o.d[2];
	t.x.assign(o.d.begin() + 3, o.d.begin() + 3 + nx);
	t.y.assign(o.d.begin() + 3 + nx, o.d.begin() + 3 + nx + ny);
	t.f.assign(o.d.begin() + 3 + nx + ny, o.d.end());
	t.derive();
	return true;
}

// ---------------------------------------------------------------- validity helpers shared by generator and executor
// Same test as Locate()'s tolerance zone but with a safety margin: the generator only emits arguments for which this holds.
bool arg_valid(const std::vector<double>& xs, double x)
{
	size_t N = xs.size();
	if(!(x == x))
		return false;
	if(x >= xs[0] && x <= xs[N - 1])
		return true;
	if(x < xs[0])
		return std::fabs(x - xs[0]) < 0.0095 * (xs[1] - xs[0]);
	return std::fabs(x - xs[N - 1]) < 0.0095 * (xs[N - 1] - xs[N - 2]);
}
bool is_knot(const std::vector<double>& xs, double x) { return std::binary_search(xs.begin(), xs.end(), x); }
bool in_zone(const std::vector<double>& xs, double x) { return x < xs[0] || x > xs.back(); }
// segment containing x by the documented convention (x_j <= x < x_j+1, clamped)
long seg_of(const std::vector<double>& xs, double x)
{
	long N = (long) xs.size();
	long j = (long) (std::upper_bound(xs.begin(), xs.end(), x) - xs.begin()) - 1;
	return std::max(0l, std::min(N - 2, j));
}

// Coverage-only mirror of the index cache (never feeds an oracle).
struct Mirror
{
	long jLast = 0;
	bool corr  = false;
	// returns branch: 0 bisection 1 hunt-up 2 hunt-down 3 same 4 zone
	int locate(const std::vector<double>& xs, double x, long* dseg = nullptr)
	{
		long j = seg_of(xs, x);
		int br;
		if(in_zone(xs, x))
			br = 4;
		else if(!corr)
			br = 0;
		else if(x > xs[jLast])
			br = 1;
		else if(x < xs[jLast])
			br = 2;
		else
			br = 3;
		if(dseg)
			*dseg = j - jLast;
		corr  = (j >= jLast && j - jLast < 10);	  // the library computes fabs() of an unsigned difference
		jLast = j;
		return br;
	}
};

struct Slot
{
	bool live = false;
	std::unique_ptr<Interpolation> o1;
	std::unique_ptr<Interpolation_2D> o2;
	std::vector<std::pair<int, double>> hist;	// 0 = Set_Prefactor, 1 = Multiply
	double net	 = 1.0;
	bool is_copy = false;
	Mirror mx, my;
};

double apply_hist(const std::vector<std::pair<int, double>>& h)
{
	double p = 1.0;
	for(auto& e : h)
		p = e.first == 0 ? e.second : p * e.second;
	return p;
}

const std::vector<std::string> OPKINDS = {"interp", "call", "deriv", "integ", "lmin", "lmax", "gmin", "gmax", "locate", "setpref", "mul", "copy", "sweep", "xprobe", "conc"};
int kind_id(const std::string& k)
{
	for(size_t i = 0; i < OPKINDS.size(); i++)
		if(OPKINDS[i] == k)
			return (int) i;
	return -1;
}

struct Scales
{
	double val, d1, d2, d3;
};
// magnitude of the terms entering value / derivatives of the two cubics meeting at knot k (see DESIGN 3.1)
Scales knot_scales(const Table& t, long k, double p)
{
	long N = (long) t.N();
	double my = 0, ms = 0, mh = INFINITY;
	for(long j = std::max(0l, k - 1); j <= std::min(N - 1, k + 1); j++)
		my = std::max(my, std::fabs(t.fs[j]));
	for(long j = std::max(0l, k - 1); j <= std::min(N - 2, k); j++)
	{
		double h = t.xs[j + 1] - t.xs[j];
		ms		 = std::max(ms, std::fabs((t.fs[j + 1] - t.fs[j]) / h));
		mh		 = std::min(mh, h);
	}
	double ap = std::fabs(p);
	Scales s;
	s.val = 20 * ap * my;
	s.d1  = 20 * ap * ms;
	s.d2  = s.d1 / mh;
	s.d3  = s.d2 / mh;
	return s;
}

struct Exec
{
	Ctx& ctx;
	const Plan& plan;
	Table tab, alt;
	bool have_alt = false, alt_default = false;
	std::vector<Slot> slots;
	bool c09, c08;
	bool saw_up = false, saw_down = false, saw_bis = false, saw_knot_corr = false;
	bool saw_span3 = false, saw_pref = false, saw_neg = false;

	Exec(Ctx& c, const Plan& p) : ctx(c), plan(p), slots(4)
	{
		c09 = ctx.prop_is("C09");
		c08 = ctx.prop_is("C08");
	}

	// ---- pristine-process oracle: a server forked before this process ever called libphysica answers each request in a
	// freshly forked worker, i.e. in a process image whose process-global state (function statics etc.) is untouched
	struct Req
	{
		int32_t kind, k, has_pref, pad;
		double a, b, net;
	};
	struct Resp
	{
		double value;
		int64_t ok;
	};
	int ref_req = -1, ref_resp = -1;
	std::unique_ptr<Interpolation> cross;	// an object on the alternative table that is asked the same argument first
	void start_reference_server()
	{
		int rq[2], rs[2];
		if(pipe(rq) != 0 || pipe(rs) != 0)
			return;
		fflush(nullptr);
		pid_t pid = fork();
		if(pid == 0)
		{
			close(rq[1]);
			close(rs[0]);
			Req q;
			while(read(rq[0], &q, sizeof q) == (ssize_t) sizeof q)
			{
				pid_t w = fork();
				if(w == 0)
				{
					alarm(60);
					Resp a{0.0, 1};
					if(!tab.two_d)
					{
						Interpolation F = make1d(tab);
						if(q.has_pref)
							F.Set_Prefactor(q.net);
						a.value = q.kind == 0 ? F.Interpolate(q.a) : q.kind == 2 ? F.Derivative(q.a, (unsigned) q.k) : q.kind == 3 ? F.Integrate(q.a, q.b) : q.kind == 8 ? (double) F.Locate(q.a) : q.kind == 4 ? F.Local_Minimum(q.a, q.b) : q.kind == 5 ? F.Local_Maximum(q.a, q.b) : q.kind == 6 ? F.Global_Minimum() : q.kind == 7 ? F.Global_Maximum() : 0.0;
					}
					else
					{
						Interpolation_2D F = make2d(tab);
						if(q.has_pref)
							F.Set_Prefactor(q.net);
						a.value = F.Interpolate(q.a, q.b);
					}
					if(write(rs[1], &a, sizeof a) != (ssize_t) sizeof a) {}
					_exit(0);
				}
				int st = 0;
				while(waitpid(w, &st, 0) < 0) {}
				if(!(WIFEXITED(st) && WEXITSTATUS(st) == 0))
				{
					Resp a{0.0, 0};
					if(write(rs[1], &a, sizeof a) != (ssize_t) sizeof a) {}
				}
			}
			_exit(0);
		}
		close(rq[0]);
		close(rs[1]);
		ref_req	 = rq[1];
		ref_resp = rs[0];
	}
	bool pristine(int kind, int k, double a, double b, const Slot& s, double& out)
	{
		if(ref_req < 0)
			return false;
		Req q{kind, k, s.hist.empty() ? 0 : 1, 0, a, b, s.net};
		if(write(ref_req, &q, sizeof q) != (ssize_t) sizeof q)
			return false;
		Resp r;
		if(read(ref_resp, &r, sizeof r) != (ssize_t) sizeof r)
			return false;
		if(!r.ok)
			ctx.violate("C09:terminated-on-valid-request", "a single query on a freshly constructed object in a pristine process did not return");
		out = r.value;
		ctx.probe(P_PRISTINE);
		return true;
	}

	// Two callers inside the library at once, each with an object of its own (two fresh copies of the slot's table and prefactor):
	// each thread puts its own sequence of queries to its own object under the pre-emptive scheduler of sim/preempt.cpp; the
	// answers must be those the same sequences give when run one after the other on two more fresh copies.
	void exec_conc(const Op& o, Slot& s)
	{
		// i: slot, schedule mode, schedule argument, schedule seed, query kind of thread A, of thread B ; d: points of A then of B
		if(tab.two_d || o.i.size() < 6 || o.d.size() < 2)
			return;
		int mode = (int) o.i[1], qa = (int) o.i[4], qb = (int) o.i[5];
		uint64_t arg = (uint64_t) std::max(1ll, o.i[2]);
		size_t half = o.d.size() / 2;
		for(double x : o.d)
			if(!arg_valid(tab.xs, x))
				return;
		auto run = [&](Interpolation& F, int q, size_t from, std::vector<double>& out) {
			for(size_t k = from; k + 1 < from + half; k++)
			{
				double a = o.d[k], b = o.d[k + 1];
				switch(q)
				{
					case 0: out.push_back(F.Interpolate(a)); break;
					case 1: out.push_back(F.Derivative(a, 1 + (unsigned) (k % 3))); break;
					case 2: out.push_back(F.Integrate(a, b)); break;
					case 3: out.push_back(std::min(a, b) < std::max(a, b) ? F.Local_Minimum(std::min(a, b), std::max(a, b)) : 0.0); break;
					case 4: out.push_back(std::min(a, b) < std::max(a, b) ? F.Local_Maximum(std::min(a, b), std::max(a, b)) : 0.0); break;
					default: out.push_back((double) F.Locate(a)); break;
				}
			}
		};
		Interpolation A1 = fresh1(s, 1), B1 = fresh1(s, 1), A2 = fresh1(s, 1), B2 = fresh1(s, 1);
		std::vector<double> a1, b1, a2, b2;
		run(A1, qa, 0, a1);
		run(B1, qb, half, b1);
		sim::preempt::Stats st = sim::preempt::run_pair([&] { run(A2, qa, 0, a2); }, [&] { run(B2, qb, half, b2); }, (uint64_t) o.i[3], mode, arg);
		ctx.probe(P_CONC);
		ctx.probe(P_CONC_POINTS, st.points);
		ctx.probe(P_CONC_SWITCHES, st.switches);
		ctx.log.u64(a2.size() + b2.size());
		for(int w = 0; w < 2; w++)
		{
			const std::vector<double>&x = w ? b1 : a1, &y = w ? b2 : a2;
			for(size_t k = 0; k < x.size() && k < y.size(); k++)
				if(!same_bits(x[k], y[k]))
					ctx.violate("C09:concurrent-callers", fmt("query #%zu (kind %d) on an object of its own returns %.17g while another thread is inside the library with ANOTHER object, and %.17g when the same sequence is run alone; %llu scheduling points, %llu pre-emptions", k, w ? qb : qa, y[k], x[k], (unsigned long long) st.points, (unsigned long long) st.switches) + where(o));
		}
	}

	void exec_xprobe(const Op& o, Slot& s)
	{
		// i: slot, query kind (0 interp, 2 deriv, 3 integ, 8 locate), derivative order ; d: x [, b]
		int qk = o.i.size() > 1 ? (int) o.i[1] : 0;
		unsigned k = o.i.size() > 2 ? (unsigned) o.i[2] : 1;
		double a = o.d.at(0), b = o.d.size() > 1 ? o.d[1] : a;
		note_pref(s);
		if(!tab.two_d)
		{
			const std::vector<double>& xs = tab.xs;
			if(!arg_valid(xs, a) || !arg_valid(xs, b))
				return;
			// the same argument is first asked of an object built on ANOTHER table (state shared between objects shows here)
			if(have_alt && !alt.two_d && arg_valid(alt.xs, a) && arg_valid(alt.xs, b))
			{
				if(!cross)
					cross.reset(new Interpolation(make1d(alt)));
				ctx.probe(P_CROSS_TABLE);
				if(qk == 0)
					(void) cross->Interpolate(a);
				else if(qk == 2)
					(void) cross->Derivative(a, k);
				else if(qk == 3)
					(void) cross->Integrate(a, b);
				else
					(void) cross->Locate(a);
			}
			bool knot = is_knot(xs, a) || (qk == 3 && is_knot(xs, b));
			track(s, s.mx, xs, a, 13, is_knot(xs, a));
			double u = qk == 0 ? s.o1->Interpolate(a) : qk == 2 ? s.o1->Derivative(a, k) : qk == 3 ? s.o1->Integrate(a, b) : (double) s.o1->Locate(a);
			ctx.log.f64(u);
			double f;
			if(!c09 || !pristine(qk == 0 ? 0 : qk == 2 ? 2 : qk == 3 ? 3 : 8, (int) k, a, b, s, f))
				return;
			if(qk == 8)
			{
				long kn = (long) (std::lower_bound(xs.begin(), xs.end(), a) - xs.begin());
				bool ok = knot ? std::labs((long) u - (long) f) <= 1 && ((long) u == kn || (long) u == kn - 1 || (kn == 0 && (long) u == 0)) : u == f;
				if(!ok)
					ctx.violate("C09:pristine-process:locate", fmt("Locate(%.17g): object with history returned %g, a fresh object in a pristine process %g", a, u, f) + where(o));
				return;
			}
			double scale = 0;
			if(knot)
			{
				if(qk == 3)
				{
					double lo = std::min(a, b), hi = std::max(a, b);
					long j0 = std::max(0l, seg_of(xs, lo) - 1), j1 = std::min((long) xs.size() - 1, seg_of(xs, hi) + 2);
					for(long j = j0; j < j1; j++)
						scale += std::fabs(s.net) * 20 * std::max(std::fabs(tab.fs[j]), std::fabs(tab.fs[j + 1])) * (std::fabs(xs[j]) + std::fabs(xs[j + 1]) + (xs[j + 1] - xs[j]));
				}
				else
				{
					long kn	  = (long) (std::lower_bound(xs.begin(), xs.end(), a) - xs.begin());
					Scales sc = knot_scales(tab, kn, s.net);
					scale	  = (qk != 2 || k == 0) ? sc.val : k == 1 ? sc.d1 : k == 2 ? sc.d2 : sc.d3;
				}
			}
			compare(o, qk == 0 ? "Interpolate (vs pristine process)" : qk == 2 ? "Derivative (vs pristine process)" : "Integrate (vs pristine process)", u, f, knot, scale, "C09:pristine-process:nonknot", "C09:pristine-process:knot");
		}
		else
		{
			if(!arg_valid(tab.xs, a) || !arg_valid(tab.ys, b))
				return;
			bool knot = is_knot(tab.xs, a) || is_knot(tab.ys, b);
			double u  = s.o2->Interpolate(a, b);
			ctx.log.f64(u);
			double f;
			if(!c09 || knot || !pristine(0, 0, a, b, s, f))
				return;
			compare(o, "Interpolation_2D::Interpolate (vs pristine process)", u, f, false, 0, "C09:pristine-process:nonknot", "");
		}
	}

	int live_slot(long want)
	{
		want = ((want % 4) + 4) % 4;
		if(slots[want].live)
			return (int) want;
		for(int s = 0; s < 4; s++)
			if(slots[s].live)
				return s;
		return -1;
	}

	// a fresh object carrying the given prefactor history (mode 0: one Set_Prefactor(net); 1: replay; 2: none)
	Interpolation fresh1(const Slot& s, int mode)
	{
		Interpolation F = make1d(tab);
		if(mode == 0 && !s.hist.empty())
			F.Set_Prefactor(s.net);
		else if(mode == 1)
			for(auto& e : s.hist)
			{
				if(e.first == 0)
					F.Set_Prefactor(e.second);
				else
					F.Multiply(e.second);
			}
		return F;
	}
	Interpolation_2D fresh2(const Slot& s, int mode)
	{
		Interpolation_2D F = make2d(tab);
		if(mode == 0 && !s.hist.empty())
			F.Set_Prefactor(s.net);
		else if(mode == 1)
			for(auto& e : s.hist)
			{
				if(e.first == 0)
					F.Set_Prefactor(e.second);
				else
					F.Multiply(e.second);
			}
		return F;
	}

	std::string where(const Op& o) { return " [op " + std::to_string(ctx.cur) + ": " + o.text().substr(0, 300) + "]"; }

	void compare(const Op& o, const char* what, double u, double f, bool knotty, double scale, const char* cls_nonknot, const char* cls_knot)
	{
		ctx.probe(P_COMPARISONS);
		if(!knotty)
		{
			ctx.probe(P_BIT_EXACT);
			if(!same_bits(u, f))
				ctx.violate(cls_nonknot, fmt("%s: used object returned %a (%.17g), fresh object %a (%.17g); arguments are not tabulated abscissae so the answers must be bit-identical", what, u, u, f, f) + where(o));
		}
		else
		{
			ctx.probe(P_TOL_COMPARE);
			double d = ulps(u, f, scale);
			ctx.metric_max(M_KNOT_ULPS, d / 16.0);
			if(d > 16.0)
				ctx.violate(cls_knot, fmt("%s at a tabulated abscissa: used object %.17g, fresh object %.17g, difference %.3g = %.3g ulp of the local term scale %.3g (allowed 16)", what, u, f, std::fabs(u - f), d, scale) + where(o));
		}
	}

	// ---------------- mirror bookkeeping (coverage only)
	void track(Slot& s, Mirror& m, const std::vector<double>& xs, double x, int kid, bool knot)
	{
		bool corr_before = m.corr;
		long dseg		 = 0;
		int br			 = m.locate(xs, x, &dseg);
		const int pid[]	 = {P_BISECT, P_HUNT_UP, P_HUNT_DOWN, P_SAME, P_ZONE};
		ctx.probe(pid[br]);
		if(br == 1)
			saw_up = true;
		if(br == 2)
			saw_down = true;
		if(br == 0)
			saw_bis = true;
		long ad	  = std::labs(dseg);
		int dbuck = ad == 0 ? 0 : ad == 1 ? 1 : ad < 10 ? 2 : 3;
		int aclass;
		if(knot)
			aclass = 1;
		else if(in_zone(xs, x))
			aclass = 4;
		else if(is_knot(xs, std::nextafter(x, INFINITY)) || is_knot(xs, std::nextafter(x, -INFINITY)))
			aclass = 2;
		else if(seg_of(xs, x) == 0 || seg_of(xs, x) == (long) xs.size() - 2)
			aclass = 3;
		else
			aclass = 0;
		if(aclass == 2)
			ctx.probe(P_NEXTAFTER_Q);
		if(knot)
		{
			ctx.probe(P_KNOT_Q);
			if(corr_before)
			{
				ctx.probe(P_KNOT_CORR);
				saw_knot_corr = true;
			}
		}
		uint32_t id = (uint32_t) kid;
		id			= id * 2 + (corr_before ? 1 : 0);
		id			= id * 5 + (uint32_t) br;
		id			= id * 4 + (uint32_t) dbuck;
		id			= id * 5 + (uint32_t) aclass;
		id			= id * 2 + (s.is_copy ? 1 : 0);
		ctx.state(id);
	}
	void note_pref(const Slot& s)
	{
		if(s.net != 1.0)
		{
			ctx.probe(P_Q_UNDER_PREF);
			saw_pref = true;
		}
		if(s.net < 0)
		{
			ctx.probe(P_Q_UNDER_NEG);
			saw_neg = true;
		}
		if(s.net == 0)
			ctx.probe(P_ZERO_PREF);
	}

	// ---------------- C08 references
	struct Ref
	{
		long double integral = 0;
		double tol			 = 0;
		double fmin = INFINITY, fmax = -INFINITY;	// over all samples
		double scale = 0;
		double term_scale = 0;	// 20*|prefactor|*max|y| over the knots of all segments touched
		double grid_slack = 0;	// value resolution at an interior extremum of a zone piece due to the spacing of representable abscissae
		std::vector<double> attain;	  // values at a, b and knots inside
		bool zone = false;
	};
	// samples F (fresh, same prefactor) over [a,b] (a<=b): ends, knots inside, aux points; GL integral per piece
	Ref reference(Interpolation& F, double a, double b, bool want_integral, double net = 1.0)
	{
		Ref r;
		const std::vector<double>& xs = tab.xs;
		r.zone						  = in_zone(xs, a) || in_zone(xs, b);
		std::vector<double> bp;
		bp.push_back(a);
		auto lo = std::upper_bound(xs.begin(), xs.end(), a);
		auto hi = std::lower_bound(xs.begin(), xs.end(), b);
		for(auto it = lo; it < hi; ++it)
			bp.push_back(*it);
		if(b > a)
			bp.push_back(b);
		static const double gx[4] = {-0.8611363115940526, -0.3399810435848563, 0.3399810435848563, 0.8611363115940526};
		static const double gw[4] = {0.3478548451374538, 0.6521451548625461, 0.6521451548625461, 0.3478548451374538};
		auto sample				  = [&](double x, bool att) {
			  double v = F.Interpolate(x);
			  r.fmin   = std::min(r.fmin, v);
			  r.fmax   = std::max(r.fmax, v);
			  r.scale  = std::max(r.scale, std::fabs(v));
			  if(att)
				  r.attain.push_back(v);
			  return v;
		};
		for(long j = seg_of(xs, a); j <= seg_of(xs, b) + 1 && j < (long) xs.size(); j++)
			r.term_scale = std::max(r.term_scale, 20.0 * std::fabs(net) * std::fabs(tab.fs[j]));
		size_t pieces = bp.size() > 1 ? bp.size() - 1 : 0;
		uint64_t h	  = mix64(bits(a) ^ mix64(bits(b)));
		double stride = pieces > 96 ? (double) pieces / 96.0 : 1.0;	  // aux points in at most ~96 pieces
		size_t next_aux = 0;
		double acc		= 0.0;
		for(size_t k = 0; k < bp.size(); k++)
			sample(bp[k], true);
		for(size_t k = 0; k < pieces; k++)
		{
			double l = bp[k], rr = bp[k + 1], hh = rr - l, mid = 0.5 * (l + rr);
			double M = std::max(std::fabs(F.Interpolate(l)), std::fabs(F.Interpolate(rr)));
			if(want_integral)
			{
				long double sum = 0;
				for(int g = 0; g < 4; g++)
				{
					double x = mid + 0.5 * hh * gx[g];
					if(x < l)
						x = l;
					if(x > rr)
						x = rr;
					double v = sample(x, false);
					M		 = std::max(M, std::fabs(v));
					sum += (long double) gw[g] * v;
				}
				r.integral += sum * 0.5L * (long double) hh;
				// Allowed error of this piece: Integrate() forms antiderivative differences of the cubic of segment j, whose terms are
				// of size Ymax_j*h_j (powers of x-x_j) and Ymax_j*|x| (the d_j*x term), Ymax_j = |prefactor|*max(|y_j|,|y_j+1|).
				// (A piece whose limit is a knot may be served by either adjacent segment: take the larger scale.)
				double Ymax = M, hseg = hh;
				for(long j = seg_of(xs, l); j <= seg_of(xs, rr); j++)
				{
					Ymax = std::max(Ymax, std::fabs(net) * std::max(std::fabs(tab.fs[j]), std::fabs(tab.fs[j + 1])));
					hseg = std::max(hseg, xs[j + 1] - xs[j]);
				}
				r.tol += 64.0 * 2.220446049250313e-16 * Ymax * (std::fabs(l) + std::fabs(rr) + 3.0 * hseg);
			}
			bool zone_piece = l < xs.front() || rr > xs.back();
			if(!want_integral && (k == next_aux || zone_piece))
			{
				if(k == next_aux)
				{
					acc += stride;
					next_aux = (size_t) acc;
					if(next_aux <= k)
						next_aux = k + 1;
				}
				std::vector<std::pair<double, double>> pts = {{l, F.Interpolate(l)}, {rr, F.Interpolate(rr)}};
				for(int q = 0; q < 16; q++)
				{
					h		 = mix64(h + q);
					double t = ((h >> 11) + 0.5) * (1.0 / 9007199254740992.0);
					double x = l + t * hh;
					if(x < l)
						x = l;
					if(x > rr)
						x = rr;
					pts.push_back({x, sample(x, false)});
				}
				if(zone_piece)
				{
					// Outside the table the end cubic need not be monotone: locate an interior extremum of this piece by ternary search
					// around the best sample; the refined value is a value the curve takes (it joins the attainment set).
					std::sort(pts.begin(), pts.end());
					for(int want_max = 0; want_max < 2; want_max++)
					{
						size_t best = 0;
						for(size_t q = 1; q < pts.size(); q++)
							if(want_max ? pts[q].second > pts[best].second : pts[q].second < pts[best].second)
								best = q;
						double lo = pts[best ? best - 1 : 0].first, hi = pts[std::min(best + 1, pts.size() - 1)].first;
						for(int it = 0; it < 100 && hi > lo; it++)
						{
							double m1 = lo + (hi - lo) / 3.0, m2 = hi - (hi - lo) / 3.0;
							double v1 = F.Interpolate(m1), v2 = F.Interpolate(m2);
							if(want_max ? v1 < v2 : v1 > v2)
								lo = m1;
							else
								hi = m2;
						}
						// The search ends between two adjacent doubles; when the table sits far from the origin the representable
						// abscissae are so coarse that neighbouring grid points differ visibly in value, so look at the grid
						// neighbourhood of the end point and keep the best representable one.
						double xm = std::min(std::max(0.5 * (lo + hi), l), rr), xb = xm, vb = F.Interpolate(xm);
						for(int dir = -1; dir <= 1; dir += 2)
						{
							double x = xm;
							for(int step = 0; step < 6; step++)
							{
								x = std::nextafter(x, dir > 0 ? INFINITY : -INFINITY);
								if(x < l || x > rr)
									break;
								double v = F.Interpolate(x);
								if(want_max ? v > vb : v < vb)
									vb = v, xb = x;
							}
						}
						sample(xb, true);
						// how much the value changes between neighbouring representable abscissae at the extremum: neither the
						// library nor this reference can resolve the extremum of the real curve better than that
						double xp = std::nextafter(xb, INFINITY), xn = std::nextafter(xb, -INFINITY);
						double dv = 0;
						if(xp <= rr)
							dv = std::max(dv, std::fabs(F.Interpolate(xp) - vb));
						if(xn >= l)
							dv = std::max(dv, std::fabs(F.Interpolate(xn) - vb));
						r.grid_slack = std::max(r.grid_slack, 4.0 * dv);
					}
				}
			}
		}
		r.tol += 1e-300;
		return r;
	}

	void check_extremum(const Op& o, const char* what, bool is_min, double got, const Ref& r, const char* cls_prefix)
	{
		// scale = magnitude of the terms entering an evaluation of the cubics touched by the interval (as in knot_scales)
		double sc	= std::max(std::max(r.scale, std::fabs(got)), r.term_scale);
		double allow = 8.0;   // (attainment in the zone: ternary search resolves the value to a few ulp of the scale)
		// bound: no evaluation falls outside
		double excess_ulps = is_min ? (r.fmin < got - r.grid_slack ? ulps(r.fmin, got - r.grid_slack, sc) : 0.0) : (r.fmax > got + r.grid_slack ? ulps(r.fmax, got + r.grid_slack, sc) : 0.0);
		ctx.metric_max(M_EXT_ERR, excess_ulps / allow);
		if(excess_ulps > allow || std::isnan(got))
			ctx.violate(std::string(cls_prefix) + (r.zone ? ":outside-zone" : ":outside"), fmt("%s returned %.17g but the curve takes the value %.17g inside the interval (%.3g ulp of scale %.3g beyond the reported extremum)", what, got, is_min ? r.fmin : r.fmax, excess_ulps, sc) + where(o));
		// attainment: the reported extremum is a value the curve takes (at an end or a knot inside)
		double best = INFINITY;
		for(double v : r.attain)
			best = std::min(best, std::fabs(v - got) <= r.grid_slack ? 0.0 : ulps(v, got, sc));
		if(best > allow)
		{	// Inside the tabulated domain every piece is monotone, so the extremum is attained at a limit or at a knot inside; for
			// pieces in the extrapolation zone reference() has added the refined interior extrema to the attainment set.
			ctx.violate(std::string(cls_prefix) + ":not-attained", fmt("%s returned %.17g which the curve does not take at either limit or at any tabulated abscissa inside the interval (closest %.3g ulp of scale %.3g; curve min %.17g max %.17g over the samples)", what, got, best, sc, r.fmin, r.fmax) + where(o));
		}
	}

	// ---------------- op execution
	void exec_query_1d(const Op& o, Slot& s, int kid)
	{
		Interpolation& U			  = *s.o1;
		const std::vector<double>& xs = tab.xs;
		note_pref(s);
		if(kid == 0 || kid == 1 || kid == 2 || kid == 8)
		{
			double x = o.d.at(0);
			if(!arg_valid(xs, x))
				return;	  // can only happen in a hand-edited plan
			bool knot  = is_knot(xs, x);
			unsigned k = kid == 2 ? (unsigned) o.i.at(1) : 0;
			if(kid == 2 && k == 0)
				track(s, s.mx, xs, x, kid, knot);	// Derivative(x,0) looks up twice
			track(s, s.mx, xs, x, kid, knot);
			double u;
			unsigned lu = 0;
			if(kid == 0)
				u = U.Interpolate(x);
			else if(kid == 1)
				u = U(x);
			else if(kid == 2)
				u = U.Derivative(x, k);
			else
			{
				lu = U.Locate(x);
				u  = lu;
			}
			ctx.log.f64(u);
			if(!c09)
				return;
			long kn	 = knot ? (long) (std::lower_bound(xs.begin(), xs.end(), x) - xs.begin()) : 0;
			Scales sc = knot ? knot_scales(tab, kn, s.net) : Scales{0, 0, 0, 0};
			for(int mode = 0; mode < 2; mode++)
			{
				Interpolation F = fresh1(s, mode);
				double f;
				if(kid == 0)
					f = F.Interpolate(x);
				else if(kid == 1)
					f = F(x);
				else if(kid == 2)
					f = F.Derivative(x, k);
				else
					f = F.Locate(x);
				if(kid == 8)
				{
					ctx.probe(P_COMPARISONS);
					long ju = (long) u, jf = (long) f;
					bool ok = knot ? (std::labs(ju - jf) <= 1 && (ju == kn || ju == kn - 1 || (kn == 0 && ju == 0))) : (ju == jf);
					if(!ok)
						ctx.violate(knot ? "C09:locate-at-knot" : "C09:locate-nonknot", fmt("Locate(%.17g): used object returned segment %ld, fresh object %ld", x, ju, jf) + where(o));
				}
				else
				{
					double scale = (kid != 2 || k == 0) ? sc.val : k == 1 ? sc.d1 : k == 2 ? sc.d2 : k == 3 ? sc.d3 : 0.0;
					std::string what = kid == 2 ? fmt("Derivative(%.17g,%u)", x, k) : fmt("Interpolate(%.17g)", x);
					std::string cn = kid == 2 && k >= 1 ? "C09:nonknot-bits:derivative" : "C09:nonknot-bits:value";
					std::string ck = kid == 2 && k >= 2 ? "C09:knot-history:higher-derivative" : kid == 2 && k == 1 ? "C09:knot-history:first-derivative" : "C09:knot-history:value";
					compare(o, what.c_str(), u, f, knot, scale, cn.c_str(), ck.c_str());
				}
			}
			// prefactor law: the answer is net * (answer of a prefactor-1 object)
			if(kid != 8)
			{
				Interpolation F1 = make1d(tab);
				double f1		 = kid == 2 ? F1.Derivative(x, k) : F1.Interpolate(x);
				double expect	 = s.net * f1;
				double scale	 = knot ? ((kid != 2 || k == 0) ? sc.val : k == 1 ? sc.d1 : k == 2 ? sc.d2 : sc.d3) : std::fabs(expect);
				ctx.probe(P_COMPARISONS);
				if(kid == 2 && k > 3)
				{
					if(u != 0.0)
						ctx.violate("C09:prefactor-law", fmt("Derivative of order %u returned %.17g, expected 0", k, u) + where(o));
				}
				else if(ulps(u, expect, scale) > (knot ? 16.0 : 2.0))
					ctx.violate("C09:prefactor-law", fmt("answer %.17g is not prefactor (%.17g) times the prefactor-1 answer %.17g (%.3g ulp)", u, s.net, f1, ulps(u, expect, scale)) + where(o));
			}
			return;
		}
		if(kid == 3 || kid == 4 || kid == 5)
		{
			double a = o.d.at(0), b = o.d.at(1);
			if(!arg_valid(xs, a) || !arg_valid(xs, b))
				return;
			if((kid == 4 || kid == 5) && b < a)
				std::swap(a, b);   // Local_* require ordered limits
			bool knotty = is_knot(xs, a) || is_knot(xs, b);
			double lo = std::min(a, b), hi = std::max(a, b);
			long span = seg_of(xs, hi) - seg_of(xs, lo);
			if(in_zone(xs, a) || in_zone(xs, b))
				ctx.probe(P_EXT_ZONE);
			if(kid == 3)
			{
				if(span >= 3)
					ctx.probe(P_INTEG_MULTI);
				if(a > b)
					ctx.probe(P_INTEG_REVERSED);
				track(s, s.mx, xs, lo, kid, is_knot(xs, lo));
				track(s, s.mx, xs, hi, kid, is_knot(xs, hi));
			}
			else
			{
				if(span >= 3)
				{
					ctx.probe(P_EXT_SPAN3);
					saw_span3 = true;
				}
				track(s, s.mx, xs, a, kid, is_knot(xs, a));
				track(s, s.mx, xs, b, kid, is_knot(xs, b));
				track(s, s.mx, xs, a, kid, is_knot(xs, a));
				track(s, s.mx, xs, b, kid, is_knot(xs, b));
			}
			double u = kid == 3 ? U.Integrate(a, b) : kid == 4 ? U.Local_Minimum(a, b) : U.Local_Maximum(a, b);
			ctx.log.f64(u);
			const char* nm = kid == 3 ? "Integrate" : kid == 4 ? "Local_Minimum" : "Local_Maximum";
			if(c09)
			{
				// tolerance scale at knots: magnitude of the terms entering the result
				double scale = 0;
				if(knotty)
				{
					long j0 = std::max(0l, seg_of(xs, lo) - 1), j1 = std::min((long) xs.size() - 1, seg_of(xs, hi) + 2);
					if(kid == 3)
						for(long j = j0; j < j1; j++)
							scale += std::fabs(s.net) * 20 * std::max(std::fabs(tab.fs[j]), std::fabs(tab.fs[j + 1])) * (std::fabs(xs[j]) + std::fabs(xs[j + 1]) + (xs[j + 1] - xs[j]));
					else
						for(long j = j0; j <= j1; j++)
							scale = std::max(scale, std::fabs(s.net) * 20 * std::fabs(tab.fs[j]));
				}
				for(int mode = 0; mode < 2; mode++)
				{
					Interpolation F = fresh1(s, mode);
					double f		= kid == 3 ? F.Integrate(a, b) : kid == 4 ? F.Local_Minimum(a, b) : F.Local_Maximum(a, b);
					compare(o, fmt("%s(%.17g,%.17g)", nm, a, b).c_str(), u, f, knotty, scale, kid == 3 ? "C09:nonknot-bits:integral" : "C09:nonknot-bits:extremum", kid == 3 ? "C09:knot-history:integral" : "C09:knot-history:extremum");
				}
				// a fresh object of THIS process shares whatever the library keeps per process or per thread (scratch buffers, caches);
				// in runs that have a pristine-process server, an eighth of these queries are also put to it
				double f;
				if(ref_req >= 0 && (mix64(ctx.salt ^ ((uint64_t) ctx.cur * 0x9E37ull)) & 7) == 0 && pristine(kid, 0, a, b, s, f))
					compare(o, fmt("%s(%.17g,%.17g) (vs pristine process)", nm, a, b).c_str(), u, f, knotty, scale, "C09:pristine-process:nonknot", "C09:pristine-process:knot");
			}
			if(c08)
			{
				Interpolation F = fresh1(s, 1);
				if(kid == 3)
				{
					Ref r			= reference(F, lo, hi, true, s.net);
					long double ref = (a > b) ? -r.integral : r.integral;
					double err		= (double) fabsl((long double) u - ref);
					ctx.metric_max(M_INTEG_ERR, err / r.tol);
					ctx.probe(P_COMPARISONS);
					if(!(err <= r.tol))
						ctx.violate("C08:integral-value", fmt("Integrate(%.17g,%.17g) = %.17g but the integral of the interpolated curve is %.17Lg (error %.3g, allowed %.3g)", a, b, u, ref, err, r.tol) + where(o));
					// bounded by curve minimum / maximum times the interval length (inside the tabulated domain, where pieces are monotone)
					if(!r.zone)
					{
						double len = hi - lo, sgn = (a > b) ? -1.0 : 1.0;
						double I = sgn * u;
						if(I < r.fmin * len - r.tol || I > r.fmax * len + r.tol)
							ctx.violate("C08:integral-bounds", fmt("Integrate over [%.17g,%.17g] = %.17g lies outside [min,max]*length = [%.17g,%.17g]", lo, hi, I, r.fmin * len, r.fmax * len) + where(o));
					}
					// antisymmetry (exact) and additivity on a second fresh object
					Interpolation G = fresh1(s, 1);
					double g_ab = G.Integrate(a, b), g_ba = G.Integrate(b, a);
					if(!same_bits(g_ab, -g_ba) && !(g_ab == 0 && g_ba == 0))
						ctx.violate("C08:integral-antisymmetry", fmt("Integrate(a,b) = %.17g but Integrate(b,a) = %.17g", g_ab, g_ba) + where(o));
					uint64_t h = mix64(bits(a) ^ mix64(bits(b) + 1));
					double t   = ((h >> 11) + 0.5) * (1.0 / 9007199254740992.0);
					double m   = lo + t * (hi - lo);
					if(m >= lo && m <= hi)
					{
						double i1 = G.Integrate(lo, m), i2 = G.Integrate(m, hi), i3 = G.Integrate(lo, hi);
						ctx.probe(P_COMPARISONS);
						if(!(std::fabs((i1 + i2) - i3) <= 3 * r.tol))
							ctx.violate("C08:integral-additivity", fmt("Integrate(%.17g,%.17g)+Integrate(%.17g,%.17g) = %.17g but Integrate(%.17g,%.17g) = %.17g (allowed %.3g)", lo, m, m, hi, i1 + i2, lo, hi, i3, 3 * r.tol) + where(o));
					}
				}
				else
				{
					Ref r = reference(F, a, b, false, s.net);
					ctx.probe(P_COMPARISONS);
					check_extremum(o, fmt("%s(%.17g,%.17g) [prefactor %.17g]", nm, a, b, s.net).c_str(), kid == 4, u, r, "C08:local-extremum");
				}
			}
			return;
		}
		if(kid == 6 || kid == 7)
		{
			double u = kid == 6 ? U.Global_Minimum() : U.Global_Maximum();
			ctx.log.f64(u);
			uint32_t id = (uint32_t) kid * 400 + (s.is_copy ? 1 : 0) + 2 * (s.net < 0 ? 1 : 0) + 4 * (s.net != 1.0 ? 1 : 0);
			ctx.state(id);
			if(c09)
				for(int mode = 0; mode < 2; mode++)
				{
					Interpolation F = fresh1(s, mode);
					double f		= kid == 6 ? F.Global_Minimum() : F.Global_Maximum();
					compare(o, kid == 6 ? "Global_Minimum()" : "Global_Maximum()", u, f, false, 0, "C09:nonknot-bits:extremum", "");
				}
			double fp;
			if(c09 && ref_req >= 0 && (mix64(ctx.salt ^ ((uint64_t) ctx.cur * 0x9E37ull)) & 3) == 0 && pristine(kid, 0, 0.0, 0.0, s, fp))
				compare(o, kid == 6 ? "Global_Minimum() (vs pristine process)" : "Global_Maximum() (vs pristine process)", u, fp, false, 0, "C09:pristine-process:nonknot", "");
			if(c08)
			{
				Interpolation F = fresh1(s, 1);
				Ref r			= reference(F, xs.front(), xs.back(), false, s.net);
				saw_span3		= saw_span3 || xs.size() >= 4;
				ctx.probe(P_COMPARISONS);
				check_extremum(o, fmt("%s [prefactor %.17g]", kid == 6 ? "Global_Minimum()" : "Global_Maximum()", s.net).c_str(), kid == 6, u, r, "C08:global-extremum");
			}
			return;
		}
	}

	void exec_query_2d(const Op& o, Slot& s, int kid)
	{
		Interpolation_2D& U = *s.o2;
		note_pref(s);
		size_t nx = tab.xs.size(), ny = tab.ys.size();
		if(kid == 0 || kid == 1)
		{
			double x = o.d.at(0), y = o.d.at(1);
			if(!arg_valid(tab.xs, x) || !arg_valid(tab.ys, y))
				return;
			bool kx = is_knot(tab.xs, x), ky = is_knot(tab.ys, y);
			track(s, s.mx, tab.xs, x, kid, kx);
			track(s, s.my, tab.ys, y, kid + 20, ky);
			double u = kid == 0 ? U.Interpolate(x, y) : U(x, y);
			ctx.log.f64(u);
			if(!c09)
				return;
			double scale = 0;
			if(kx || ky)
			{
				long i = seg_of(tab.xs, x), j = seg_of(tab.ys, y);
				for(long a = std::max(0l, i - 1); a <= std::min((long) nx - 1, i + 2); a++)
					for(long b = std::max(0l, j - 1); b <= std::min((long) ny - 1, j + 2); b++)
						scale = std::max(scale, std::fabs(s.net * tab.fs[a * ny + b]));
				scale *= 4;
			}
			for(int mode = 0; mode < 2; mode++)
			{
				Interpolation_2D F = fresh2(s, mode);
				double f		   = F.Interpolate(x, y);
				compare(o, fmt("Interpolation_2D::Interpolate(%.17g,%.17g)", x, y).c_str(), u, f, kx || ky, scale, "C09:nonknot-bits:value-2d", "C09:knot-history:value-2d");
			}
			Interpolation_2D F1 = make2d(tab);
			double f1			= F1.Interpolate(x, y);
			double expect		= s.net * f1;
			if(ulps(u, expect, (kx || ky) ? std::max(scale, std::fabs(expect)) : std::fabs(expect)) > ((kx || ky) ? 16.0 : 2.0))
				ctx.violate("C09:prefactor-law", fmt("2D answer %.17g is not prefactor (%.17g) times the prefactor-1 answer %.17g", u, s.net, f1) + where(o));
			return;
		}
		if(kid == 6 || kid == 7)
		{
			double u = kid == 6 ? U.Global_Minimum() : U.Global_Maximum();
			ctx.log.f64(u);
			ctx.state((uint32_t) (kid + 20) * 400 + (s.is_copy ? 1 : 0) + 2 * (s.net < 0 ? 1 : 0) + 4 * (s.net != 1.0 ? 1 : 0));
			if(c09)
				for(int mode = 0; mode < 2; mode++)
				{
					Interpolation_2D F = fresh2(s, mode);
					double f		   = kid == 6 ? F.Global_Minimum() : F.Global_Maximum();
					compare(o, kid == 6 ? "2D Global_Minimum()" : "2D Global_Maximum()", u, f, false, 0, "C09:nonknot-bits:extremum-2d", "");
				}
			if(c08)
			{
				Interpolation_2D F = fresh2(s, 1);
				Ref r;
				for(size_t i = 0; i < nx; i++)
					for(size_t j = 0; j < ny; j++)
					{
						double v = F.Interpolate(tab.xs[i], tab.ys[j]);
						r.fmin	 = std::min(r.fmin, v);
						r.fmax	 = std::max(r.fmax, v);
						r.scale	 = std::max(r.scale, std::fabs(v));
						r.attain.push_back(v);
					}
				uint64_t h	 = mix64(0xC08ull + nx * 1000 + ny);
				size_t cells = (nx - 1) * (ny - 1), take = std::min<size_t>(cells, 64);
				for(size_t c = 0; c < take; c++)
				{
					h		   = mix64(h);
					size_t cell = cells <= 64 ? c : (size_t) (h % cells);
					size_t i = cell / (ny - 1), j = cell % (ny - 1);
					for(int q = 0; q < 9; q++)
					{
						h		  = mix64(h + q);
						double tx = ((h >> 11) + 0.5) / 9007199254740992.0;
						h		  = mix64(h);
						double ty = ((h >> 11) + 0.5) / 9007199254740992.0;
						double x = tab.xs[i] + tx * (tab.xs[i + 1] - tab.xs[i]), y = tab.ys[j] + ty * (tab.ys[j + 1] - tab.ys[j]);
						x		 = std::min(std::max(x, tab.xs[i]), tab.xs[i + 1]);
						y		 = std::min(std::max(y, tab.ys[j]), tab.ys[j + 1]);
						double v = F.Interpolate(x, y);
						r.fmin	 = std::min(r.fmin, v);
						r.fmax	 = std::max(r.fmax, v);
					}
				}
				saw_span3 = true;
				ctx.probe(P_COMPARISONS);
				check_extremum(o, fmt("%s [prefactor %.17g]", kid == 6 ? "Interpolation_2D::Global_Minimum()" : "Interpolation_2D::Global_Maximum()", s.net).c_str(), kid == 6, u, r, "C08:global-extremum-2d");
			}
		}
	}

	void exec_sweep(const Op& o, Slot& s)
	{
		ctx.probe(P_SWEEP);
		// a fixed set of probe questions: nothing but Set_Prefactor/Multiply may have altered the object's observable behaviour
		if(c09)
		{
			// the public `domain` member is part of the observable behaviour
			if(!tab.two_d)
			{
				Interpolation F = make1d(tab);
				if(s.o1->domain != F.domain)
					ctx.violate("C09:domain-member", "the public domain member of a used object differs from that of a fresh object" + where(o));
			}
			else
			{
				Interpolation_2D F = make2d(tab);
				if(s.o2->domain != F.domain)
					ctx.violate("C09:domain-member", "the public domain member of a used 2D object differs from that of a fresh object" + where(o));
			}
		}
		if(!tab.two_d)
		{
			const std::vector<double>& xs = tab.xs;
			size_t N					  = xs.size();
			std::vector<double> pts		  = {0.5 * (xs[0] + xs[1]), 0.5 * (xs[N - 2] + xs[N - 1]), 0.5 * (xs[N / 2 - 1] + xs[N / 2]), xs[0] + 0.25 * (xs[1] - xs[0]), xs[N / 3] + 0.75 * (xs[N / 3 + 1] - xs[N / 3])};
			for(double x : pts)
			{
				if(!arg_valid(xs, x) || is_knot(xs, x))
					continue;
				Op q("interp", {0}, {x});
				exec_query_1d(q, s, 0);
				Op q2("deriv", {0, 1}, {x});
				exec_query_1d(q2, s, 2);
			}
			double a = 0.5 * (xs[0] + xs[1]), b = 0.5 * (xs[N - 2] + xs[N - 1]);
			if(arg_valid(xs, a) && arg_valid(xs, b) && a <= b)
			{
				Op q("integ", {0}, {a, b});
				exec_query_1d(q, s, 3);
				Op q2("lmin", {0}, {a, b});
				exec_query_1d(q2, s, 4);
				Op q3("lmax", {0}, {a, b});
				exec_query_1d(q3, s, 5);
			}
			Op g("gmin", {0});
			exec_query_1d(g, s, 6);
			Op g2("gmax", {0});
			exec_query_1d(g2, s, 7);
		}
		else
		{
			size_t nx = tab.xs.size(), ny = tab.ys.size();
			double x = 0.5 * (tab.xs[nx / 2 - 1] + tab.xs[nx / 2]), y = 0.5 * (tab.ys[ny / 2 - 1] + tab.ys[ny / 2]);
			Op q("interp", {0}, {x, y});
			exec_query_2d(q, s, 0);
			Op q2("interp", {0}, {0.5 * (tab.xs[0] + tab.xs[1]), 0.5 * (tab.ys[ny - 2] + tab.ys[ny - 1])});
			exec_query_2d(q2, s, 0);
			Op g("gmin", {0});
			exec_query_2d(g, s, 6);
			Op g2("gmax", {0});
			exec_query_2d(g2, s, 7);
		}
	}

	void run()
	{
		size_t k = 0;
		for(; k < plan.ops.size(); k++)
		{
			const Op& o = plan.ops[k];
			if(o.kind == "table")
			{
				if(!table_from_op(o, tab))
					ctx.violate("harness:bad-plan", "table op malformed");
			}
			else if(o.kind == "altdefault")
				alt_default = true;
			else if(o.kind == "alt")
			{
				have_alt = table_from_op(o, alt);
			}
			else
				break;
		}
		if(tab.N() < 3)
			return;
		if(tab.two_d)
			ctx.probe(P_2D_RUN);
		if(tab.N() >= 200)
			ctx.probe(P_BIGN);
		if(c09)
			for(auto& o : plan.ops)
				if(o.kind == "xprobe")
				{
					start_reference_server();	// forked now: this process has not called libphysica yet
					break;
				}
		slots[0].live = true;
		if(tab.two_d)
			slots[0].o2.reset(new Interpolation_2D(make2d(tab)));
		else
			slots[0].o1.reset(new Interpolation(make1d(tab)));
		ctx.log.u64(tab.N());
		for(; k < plan.ops.size(); k++)
		{
			const Op& o = plan.ops[k];
			int kid		= kind_id(o.kind);
			if(kid < 0)
				continue;
			ctx.on_thread(o.t, [&] {
			ctx.begin_op((int) k);
			ctx.log.u64((uint64_t) kid);
			int si = live_slot(o.i.empty() ? 0 : o.i[0]);
			Slot& s = slots[si];
			if(kid == 9 || kid == 10)
			{
				double p = o.d.at(0);
				if(kid == 9)
				{
					if(tab.two_d)
						s.o2->Set_Prefactor(p);
					else
						s.o1->Set_Prefactor(p);
					s.hist.clear();	  // earlier history is irrelevant after Set_Prefactor; keep the replay short
					s.hist.push_back({0, p});
				}
				else
				{
					if(std::fabs(p) > 1e100)
						ctx.probe(P_EXCURSION);
					if(tab.two_d)
						s.o2->Multiply(p);
					else
						s.o1->Multiply(p);
					s.hist.push_back({1, p});
				}
				s.net = apply_hist(s.hist);
				if(p < 0)
					ctx.probe(P_PREF_NEG);
				if(std::fabs(p) < 1e-20 || std::fabs(p) > 1e20)
					ctx.probe(P_PREF_TINYHUGE);
				ctx.log.f64(s.net);
			}
			else if(kid == 11)
			{
				int mode = o.i.size() > 2 ? (int) o.i[2] : 0;
				int di	 = (int) ((((o.i.size() > 1 ? o.i[1] : 1) % 4) + 4) % 4);
				if(mode == 6)
				{
					// detour: a backup copy is taken (and never evaluated), the object is assigned - from an lvalue - the state of an
					// object on another table (other size and shape when the plan has one, else a default-constructed object), and is
					// then assigned its backup again. Logically nothing happened; whatever the object caches must have followed.
					ctx.probe(P_DETOUR);
					if(tab.two_d)
					{
						Interpolation_2D backup(*s.o2);
						Interpolation_2D other = (have_alt && alt.two_d) ? make2d(alt) : Interpolation_2D();
						if(have_alt && alt.two_d)
							(void) other(alt.xs[alt.xs.size() / 2], alt.ys[alt.ys.size() / 2]);
						*s.o2 = other;
						if(have_alt && alt.two_d)
							(void) (*s.o2)(alt.xs[0], alt.ys[0]);
						*s.o2 = backup;
					}
					else
					{
						Interpolation backup(*s.o1);
						Interpolation other = (have_alt && !alt.two_d) ? make1d(alt) : Interpolation();
						if(have_alt && !alt.two_d)
							(void) other(alt.xs[alt.xs.size() / 2]);
						*s.o1 = other;
						if(have_alt && !alt.two_d)
							(void) (*s.o1)(alt.xs[0]);
						*s.o1 = backup;
					}
				}
				else if(mode == 2 || di == si)
				{
					// self assignment
					ctx.probe(P_SELF_ASSIGN);
					if(tab.two_d)
					{
						Interpolation_2D& r = *s.o2;
						*s.o2				= r;
					}
					else
					{
						Interpolation& r = *s.o1;
						*s.o1			 = r;
					}
				}
				else
				{
					Slot& d = slots[di];
					if(mode == 5 && d.live)
					{
						// std::swap of two live objects (move construction + two move assignments): the two slots trade places
						ctx.probe(P_SWAP);
						if(tab.two_d)
							std::swap(*s.o2, *d.o2);
						else
							std::swap(*s.o1, *d.o1);
						std::swap(s.hist, d.hist);
						std::swap(s.net, d.net);
						std::swap(s.mx, d.mx);
						std::swap(s.my, d.my);
						return;
					}
					if(mode == 1 || mode == 4)
					{
						// copy-assign into an existing, already used object: built on the plan's alternative table (other size, or same
						// shape and domain with other interior abscissae / other ordinates, or default-constructed) when there is one
						if(!d.live || have_alt || alt_default)
						{
							const Table& other = (have_alt && alt.two_d == tab.two_d) ? alt : tab;
							if(tab.two_d)
							{
								d.o2.reset(alt_default ? new Interpolation_2D() : new Interpolation_2D(make2d(other)));
								const Table& q = other;
								if(!alt_default)
								{
									(void) d.o2->Interpolate(0.5 * (q.xs[0] + q.xs[1]), 0.5 * (q.ys[0] + q.ys[1]));
									(void) d.o2->Interpolate(0.5 * (q.xs[q.xs.size() - 2] + q.xs.back()), 0.5 * (q.ys[q.ys.size() - 2] + q.ys.back()));
								}
								else
									(void) d.o2->Interpolate(0.5, -0.5);
							}
							else
							{
								d.o1.reset(alt_default ? new Interpolation() : new Interpolation(make1d(other)));
								if(!alt_default)
								{
									(void) d.o1->Interpolate(0.5 * (other.xs[0] + other.xs[1]));
									(void) d.o1->Interpolate(0.5 * (other.xs[other.xs.size() - 2] + other.xs.back()));
								}
								else
									(void) d.o1->Interpolate(0.5);
							}
							if(have_alt || alt_default)
								ctx.probe(P_ASSIGN_OTHER);
						}
						if(mode == 4)
						{
							// move assignment; the moved-from source is not used again (destroyed below)
							ctx.probe(P_MOVE_ASSIGN);
							if(tab.two_d)
								*d.o2 = std::move(*s.o2);
							else
								*d.o1 = std::move(*s.o1);
						}
						else if(tab.two_d)
							*d.o2 = *s.o2;
						else
							*d.o1 = *s.o1;
					}
					else
					{
						ctx.probe(P_COPY);
						if(tab.two_d)
							d.o2.reset(new Interpolation_2D(*s.o2));
						else
							d.o1.reset(new Interpolation(*s.o1));
					}
					d.live	  = true;
					d.hist	  = s.hist;
					d.net	  = s.net;
					d.mx	  = s.mx;
					d.my	  = s.my;
					d.is_copy = true;
					if(mode == 3 || mode == 4)
					{
						// the original is destroyed; later ops naming it are served by a live copy
						ctx.probe(P_MOVE);
						s.o1.reset();
						s.o2.reset();
						s.live = false;
					}
				}
			}
			else if(kid == 12)
				exec_sweep(o, s);
			else if(kid == 13)
				exec_xprobe(o, s);
			else if(kid == 14)
				exec_conc(o, s);
			else if(tab.two_d)
				exec_query_2d(o, s, kid);
			else
				exec_query_1d(o, s, kid);
			});
		}
		if(c09)
			ctx.sh->nontrivial = tab.two_d ? (saw_up && saw_bis) : (saw_up && saw_down && saw_bis && saw_knot_corr);
		else
			ctx.sh->nontrivial = saw_span3 && saw_pref && saw_neg;
		if(entropy_draws_total() || entropy_other_sources())
			ctx.violate(ctx.opts->prop + ":hidden-entropy", "interpolation code read an entropy or clock source");
	}
};

// ---------------------------------------------------------------- generator
struct Gen
{
	Rng plan_rng, aux;
	const Opts& opts;
	bool c08;
	Gen(uint64_t seed, const Opts& o) : plan_rng(mix64(seed ^ 0x706c616eull)), aux(mix64(seed ^ 0x617578ull)), opts(o) { c08 = o.prop == "C08"; }

	std::vector<double> abscissae(Rng& r, size_t N)
	{
		std::vector<double> x(N);
		int style	  = (int) r.below(5);
		double offset = 0;
		switch(r.below(6))
		{
			case 0: offset = 0; break;
			case 1: offset = r.range(-1, 1); break;
			case 2: offset = r.range(-1000, 1000); break;
			case 3: offset = -r.logrange(1e-3, 1e3); break;
			case 4: offset = r.logrange(1e-6, 1e6); break;
			default: offset = (double) r.irange(-5, 5); break;
		}
		double h = r.logrange(1e-3, 1e3);
		if(style == 4)
			h = 1.0;
		x[0] = offset;
		for(size_t i = 1; i < N; i++)
		{
			double hi;
			if(style == 0 || style == 4)
				hi = h;	  // uniform
			else if(style == 1)
				hi = h * r.range(0.2, 1.8);
			else if(style == 2)
				hi = h = std::min(1e6, std::max(1e-6, h * r.logrange(0.5, 2.1)));	// geometric drift
			else
			{
				// violent: neighbouring intervals differ by up to 1e9
				if(r.chance(0.3))
					h = std::min(1e5, std::max(1e-5, h * r.logrange(1e-9, 1e9)));
				hi = h;
			}
			double nx = x[i - 1] + hi;
			if(!(nx > x[i - 1]))
				nx = std::nextafter(x[i - 1], INFINITY);
			// keep every interval resolvable: at least 64 representable numbers inside
			double minstep = 64 * (std::nextafter(std::fabs(x[i - 1]) + hi, INFINITY) - (std::fabs(x[i - 1]) + hi));
			if(nx - x[i - 1] < minstep)
				nx = x[i - 1] + minstep;
			x[i] = nx;
		}
		return x;
	}
	std::vector<double> ordinates(Rng& r, size_t N)
	{
		std::vector<double> y(N);
		double mag = 1.0;
		switch(r.below(6))
		{
			case 0: mag = 1; break;
			case 1: mag = r.logrange(1e-20, 1e20); break;
			case 2: mag = r.logrange(1e-3, 1e3); break;
			default: mag = 1; break;
		}
		int style = (int) r.below(8);
		double w  = r.range(0.1, 2.0), ph = r.range(0, 6.28);
		double decades = r.range(5, 60) * r.sign();	  // style 7: a spectrum falling (or rising) by this many decades across the table
		double acc = r.range(-1, 1);
		for(size_t i = 0; i < N; i++)
		{
			double v;
			switch(style)
			{
				case 0: v = r.range(-1, 1); break;
				case 1: v = std::sin(w * i + ph); break;
				case 2: v = (acc += r.range(0, 1)); break;						// monotone
				case 3: v = (double) r.irange(-3, 3); break;					// small integers, plateaus
				case 4: v = r.chance(0.15) ? r.sign() * r.range(5, 50) : 0.1 * r.range(-1, 1); break;	// spikes
				case 5: v = (i % 7 < 3) ? acc : (acc = r.range(-1, 1)); break;	// plateaus
				case 7: v = std::pow(10.0, -decades * (double) i / (double) N) * (1.0 + 0.2 * r.range(-1, 1)); break;   // steep spectrum
				default: v = r.sign() * r.logrange(1e-6, 1e6); break;			// mixed magnitude
			}
			y[i] = v * mag;
		}
		return y;
	}

	Table make_table(Rng& r, bool two_d, bool small)
	{
		Table t;
		t.two_d = two_d;
		if(!two_d)
		{
			static const std::vector<long long> Ns		 = {3, 4, 5, 8, 11, 12, 13, 30, 30, 64, 200, 2000};
			static const std::vector<long long> NsQuick = {3, 4, 5, 8, 11, 12, 13, 30, 30, 64, 200};
			size_t N = (size_t) (small ? r.pick(std::vector<long long>{3, 4, 5, 8}) : opts.tier == "thorough" ? r.pick(Ns) : r.pick(NsQuick));
			if(opts.tier != "thorough" && !small && r.chance(0.05))
				N = 2000;
			if(!small && r.chance(0.3))
				N = (size_t) (r.chance(0.7) ? r.irange(3, 70) : r.irange(70, 400));   // any size, not only the hand-picked ones
			t.x = abscissae(r, N);
			t.f = ordinates(r, N);
			// Rare-condition bias: make the one-sided end slope estimate p tiny (same sign as the secant), so that the end cubic
			// has a stationary point just outside the table, inside the 1% extrapolation zone (DESIGN 3.2, F2b).
			if(N >= 3 && r.chance(0.12))
			{
				double eps = r.logrange(1e-4, 0.05);
				if(r.chance(0.5))
				{
					double h0 = t.x[1] - t.x[0], h1 = t.x[2] - t.x[1], rr = h0 / (h0 + h1);
					double s0 = (t.f[1] - t.f[0]) / h0;
					t.f[2]	  = t.f[1] + s0 * (1.0 + rr - eps) / rr * h1;
				}
				else
				{
					double h0 = t.x[N - 1] - t.x[N - 2], h1 = t.x[N - 2] - t.x[N - 3], rr = h0 / (h0 + h1);
					double s0 = (t.f[N - 1] - t.f[N - 2]) / h0;
					t.f[N - 3] = t.f[N - 2] - s0 * (1.0 + rr - eps) / rr * h1;
				}
				for(auto& v : t.f)
					if(!std::isfinite(v))
						v = 0.0;
			}
		}
		else
		{
			size_t nx = (size_t) r.irange(3, small ? 5 : 40), ny = (size_t) r.irange(3, small ? 5 : 40);
			t.x = abscissae(r, nx);
			t.y = abscissae(r, ny);
			t.f = ordinates(r, nx * ny);
		}
		if(r.chance(0.25))
			t.x_dim = r.logrange(1e-3, 1e3);
		if(two_d && r.chance(0.25))
			t.y_dim = r.logrange(1e-3, 1e3);
		if(r.chance(0.25))
			t.f_dim = r.logrange(1e-6, 1e6);
		t.table_ctor = r.chance(0.2);
		t.derive();
		// scaling by x_dim can in principle merge neighbours; reject such tables
		for(size_t i = 1; i < t.xs.size(); i++)
			if(!(t.xs[i] > t.xs[i - 1]))
				t.x_dim = -1;
		for(size_t i = 1; i < t.ys.size(); i++)
			if(!(t.ys[i] > t.ys[i - 1]))
				t.y_dim = -1;
		t.derive();
		return t;
	}

	// a query point of the requested class in segment j
	double point(Rng& r, const std::vector<double>& xs, long j, int cls)
	{
		long N = (long) xs.size();
		j	   = std::max(0l, std::min(N - 2, j));
		double l = xs[j], h = xs[j + 1] - xs[j], x;
		switch(cls)
		{
			case 1: x = r.chance(0.5) ? l : xs[j + 1]; break;	// knot
			case 2:												// nextafter neighbours of a knot
			{
				double k = r.chance(0.5) ? l : xs[j + 1];
				x		 = std::nextafter(k, r.chance(0.5) ? INFINITY : -INFINITY);
				break;
			}
			case 3:	  // extrapolation zone / domain ends
			{
				int w = (int) r.below(4);
				if(w == 0)
					x = xs[0];
				else if(w == 1)
					x = xs[N - 1];
				else if(w == 2)
					x = xs[0] - r.u01() * 0.009 * (xs[1] - xs[0]);
				else
					x = xs[N - 1] + r.u01() * 0.009 * (xs[N - 1] - xs[N - 2]);
				break;
			}
			default: x = l + r.u01() * h; break;
		}
		if(!arg_valid(xs, x))
			x = l + 0.5 * h;
		if(!arg_valid(xs, x))
			x = l;
		return x;
	}

	struct Client
	{
		int behaviour;	 // 0 walker 1 jumper 2 edge-sitter 3 knot-hitter 4 stride-prober
		int phase = 0;
		long cursor;
		long cursor_y;
		int slot;
	};

	double next_point(Rng& r, Client& c, const std::vector<double>& xs, long& cursor)
	{
		long N = (long) xs.size();
		switch(c.behaviour)
		{
			case 0:
			{
				long step = r.chance(0.25) ? 0 : r.irange(1, 9);
				int dir	  = r.chance(0.6) ? 1 : -1;	  // upward bias: only upward moves keep the object in "correlated" mode
				cursor	  = std::max(0l, std::min(N - 2, cursor + dir * step));
				return point(r, xs, cursor, r.chance(0.15) ? 1 : r.chance(0.05) ? 2 : 0);
			}
			case 1:
			{
				long j = r.irange(0, N - 2);
				if(N > 24 && std::labs(j - cursor) < 10)
					j = (cursor + N / 2) % (N - 1);
				cursor = j;
				return point(r, xs, cursor, r.chance(0.1) ? 1 : 0);
			}
			case 2:
			{
				cursor = r.chance(0.5) ? 0 : N - 2;
				return point(r, xs, cursor, r.chance(0.6) ? 3 : r.chance(0.5) ? 1 : 0);
			}
			case 4:
			{
				// stride-prober: a short upward step (keeps the object in hunting mode), then a jump whose length sits at or next to
				// the boundaries of the doubling stride of the hunt (1, 3, 7, ..., 2^k-1 and 2^k, each -1..+2)
				if((c.phase++ & 1) == 0)
				{
					cursor = std::max(0l, std::min(N - 2, cursor + (long) r.irange(0, 2)));
					return point(r, xs, cursor, r.chance(0.2) ? 1 : 0);
				}
				long kmax = 0;
				while((2l << kmax) < N)
					kmax++;
				long k	 = r.irange(0, kmax);
				long off = (r.chance(0.5) ? (1l << k) - 1 : (1l << k)) + (long) r.irange(-1, 2);
				if(off < 1)
					off = 1;
				long down = cursor - off, up = cursor + off;
				long j = (r.chance(0.6) && down >= 0) ? down : (up <= N - 2 ? up : down);
				if(j < 0 || j > N - 2)
					j = r.irange(0, N - 2);
				// the probe starts from where the last call left the object; afterwards restart somewhere else
				double x = point(r, xs, j, r.chance(0.2) ? 1 : 0);
				cursor	 = j;
				return x;
			}
			default:
			{
				long step = r.irange(-3, 5);
				cursor	  = std::max(0l, std::min(N - 2, cursor + step));
				return point(r, xs, cursor, r.chance(0.7) ? 1 : 2);
			}
		}
	}

	// limit pairs that a draw "by category" never produces together: one limit bit-exactly on the first or last abscissa and the
	// other inside the extrapolation zone next to it; the whole tabulated domain; two knots (adjacent, arbitrary, or the same)
	void edge_pair(Rng& r, const std::vector<double>& xs, double& a, double& b)
	{
		size_t N  = xs.size();
		double zl = 0.009 * (xs[1] - xs[0]), zr = 0.009 * (xs[N - 1] - xs[N - 2]);
		switch(r.below(6))
		{
			case 0: a = xs[0] - r.range(0.05, 1.0) * zl, b = xs[0]; break;
			case 1: a = xs[N - 1], b = xs[N - 1] + r.range(0.05, 1.0) * zr; break;
			case 2: a = xs[0], b = xs[N - 1]; break;
			case 3:
			{
				size_t j = r.below(N - 1);
				a = xs[j], b = xs[j + 1];
				break;
			}
			case 4: a = xs[0] - r.range(0.05, 1.0) * zl, b = xs[N - 1] + r.range(0.05, 1.0) * zr; break;
			default: a = xs[r.below(N)], b = xs[r.below(N)]; break;
		}
		if(r.chance(0.3))
			std::swap(a, b);
	}

	double prefactor(Rng& r)
	{
		switch(r.below(10))
		{
			case 0: return -1.0;
			case 1: return 2.0;
			case 2: return -2.0;
			case 3: return 0.5;
			case 4: return r.sign() * 1e-30;
			case 5: return r.sign() * 1e30;
			case 6: return 1.0;
			default: return r.sign() * r.logrange(1e-3, 1e3);
		}
	}

	Plan generate()
	{
		Rng& r = plan_rng;
		Plan p;
		double conc_frac = atof(opts.get("conc_frac", "0.004").c_str());
		bool two_d = r.chance(0.22);
		bool small = r.chance(0.15);
		Table tab  = make_table(r, two_d, small);
		p.ops.push_back(table_op("table", tab));
		if(r.chance(0.6))
		{
			// the object that copy-assignments overwrite: a small unrelated table, a table of the SAME shape and domain with other
			// interior abscissae and ordinates, the same abscissae with other ordinates, or a default-constructed object
			int variant = (int) r.below(5);
			if(variant == 4 && !two_d && tab.x.size() <= 400)
			{
				// same domain, about twice as many points (every interval halved): indices and sizes differ, arguments stay valid
				Table alt = tab;
				alt.x.clear();
				for(size_t i = 0; i + 1 < tab.x.size(); i++)
				{
					alt.x.push_back(tab.x[i]);
					double m = 0.5 * (tab.x[i] + tab.x[i + 1]);
					if(m > tab.x[i] && m < tab.x[i + 1])
						alt.x.push_back(m);
				}
				alt.x.push_back(tab.x.back());
				alt.f = ordinates(r, alt.x.size());
				alt.derive();
				bool ok = true;
				for(size_t i = 1; i < alt.xs.size(); i++)
					ok = ok && alt.xs[i] > alt.xs[i - 1];
				if(ok)
					p.ops.push_back(table_op("alt", alt));
			}
			else if(variant == 4)
				variant = 1;
			if(variant == 4)
			{
			}
			else if(variant == 0)
				p.ops.push_back(table_op("alt", make_table(r, two_d, true)));
			else if(variant == 3)
				p.ops.push_back(Op("altdefault"));
			else
			{
				Table alt = tab;
				auto jiggle = [&](std::vector<double>& x) {
					for(size_t i = 1; i + 1 < x.size(); i++)
					{
						double room = std::min(x[i] - x[i - 1], x[i + 1] - x[i]);
						double nx	= x[i] + r.range(-0.4, 0.4) * room;
						if(nx > x[i - 1] && nx < x[i + 1])
							x[i] = nx;
					}
				};
				if(variant == 1)
				{
					jiggle(alt.x);
					if(two_d)
						jiggle(alt.y);
				}
				if(variant == 2 && r.chance(0.5))
				{
					// near-identical table: same abscissae, ONE ordinate different (the last, the first, or any) - an equality test
					// that looks at part of the table takes the two for one
					size_t k  = r.chance(0.4) ? alt.f.size() - 1 : r.chance(0.5) ? 0 : (size_t) r.below(alt.f.size());
					double nv = alt.f[k] != 0.0 ? alt.f[k] * r.range(1.5, 4.0) * r.sign() : r.range(0.5, 2.0);
					alt.f[k]  = nv;
				}
				else
					alt.f = ordinates(r, alt.f.size());
				alt.derive();
				bool ok = true;
				for(size_t i = 1; i < alt.xs.size(); i++)
					ok = ok && alt.xs[i] > alt.xs[i - 1];
				for(size_t i = 1; i < alt.ys.size(); i++)
					ok = ok && alt.ys[i] > alt.ys[i - 1];
				if(ok)
					p.ops.push_back(table_op("alt", alt));
			}
		}
		long maxops = opts.tier == "thorough" ? 4000 : 400;
		if(tab.N() >= 2000)
			maxops = opts.tier == "thorough" ? 1500 : 250;
		long nops = r.chance(0.3) ? r.irange(5, 40) : r.irange(40, maxops);
		int ncl	  = (int) r.irange(1, 4);
		std::vector<Client> cl(ncl);
		long N = (long) tab.xs.size(), Ny = (long) tab.ys.size();
		for(auto& c : cl)
		{
			c.behaviour = (int) r.below(N >= 30 ? 5 : 4);
			c.cursor	= r.irange(0, N - 2);
			c.cursor_y	= two_d ? r.irange(0, Ny - 2) : 0;
			c.slot		= 0;
		}
		if(ncl >= 2)
		{
			cl[0].behaviour = 0;   // always one walker and one jumper when several clients share the object
			cl[1].behaviour = 1;
		}
		if(N >= 1000 && r.chance(0.6))
			cl[ncl - 1].behaviour = 4;	 // large tables: make sure the long strides of the hunt are probed
		// Special arguments first: the abscissae as the caller passed them BEFORE the unit factor was applied (a value in the
		// wrong units is a natural thing to ask), 0 and 1 - as the very first look-ups of the object, before and after a copy
		if(!two_d && r.chance(tab.x_dim > 0 ? 0.6 : 0.1))
		{
			std::vector<double> special = {0.0, 1.0};
			for(size_t i = 0; i < tab.x.size() && i < 3; i++)
				special.push_back(tab.x[i]);
			special.push_back(tab.x.back());
			if(r.chance(0.3))
				p.ops.push_back(Op("copy", {0, 1, 0}));	  // a copy taken before any look-up
			int slot0 = 0;
			for(int q = 0; q < 3; q++)
			{
				double x = r.pick(special);
				if(!arg_valid(tab.xs, x))
					continue;
				int w = (int) r.below(4);
				if(w == 0)
					p.ops.push_back(Op("interp", {slot0}, {x}));
				else if(w == 1)
					p.ops.push_back(Op("locate", {slot0}, {x}));
				else if(w == 2)
					p.ops.push_back(Op("deriv", {slot0, (long long) r.irange(0, 2)}, {x}));
				else
					p.ops.push_back(Op("xprobe", {slot0, (long long) r.pick(std::vector<long long>{0, 2, 8}), 1}, {x}));
				slot0 = r.chance(0.5) ? 0 : 1;
			}
		}
		// op mix
		double w_val, w_int, w_loc, w_glob, w_locate, w_pref, w_copy, w_sweep;
		if(c08)
		{
			w_val = 0.20, w_int = 0.25, w_loc = 0.25, w_glob = 0.10, w_locate = 0.02, w_pref = 0.10, w_copy = 0.05, w_sweep = 0.03;
		}
		else
		{
			w_val = 0.55, w_int = 0.08, w_loc = 0.08, w_glob = 0.04, w_locate = 0.08, w_pref = 0.07, w_copy = 0.07, w_sweep = 0.03;
		}
		if(r.chance(0.2))
			w_pref = 0, w_copy *= 0.5;	 // some runs never touch the prefactor (default state)
		double net[4] = {1, 1, 1, 1};
		bool live[4]  = {true, false, false, false};
		int cur		  = 0;
		long burst	  = 0;
		for(long k = 0; k < nops; k++)
		{
			if(burst <= 0)
			{
				cur	  = (int) r.below(ncl);
				burst = 1 + (long) (-std::log(1.0 - r.u01()) * 6.0);
			}
			burst--;
			Client& c = cl[cur];
			if(!live[c.slot])
				for(int s = 0; s < 4; s++)
					if(live[s])
					{
						c.slot = s;
						break;
					}
			double u = r.u01() * (w_val + w_int + w_loc + w_glob + w_locate + w_pref + w_copy + w_sweep);
			// category: 0 value 1 integral 2 local extremum 3 global extremum 4 locate 5 prefactor 6 copy 7 sweep
			int cat = 7;
			{
				const double ws[8] = {w_val, w_int, w_loc, w_glob, w_locate, w_pref, w_copy, w_sweep};
				for(int q = 0; q < 8; q++)
				{
					if(u < ws[q])
					{
						cat = q;
						break;
					}
					u -= ws[q];
				}
			}
			if(two_d && (cat == 1 || cat == 4))
				cat = 0;   // the 2D class has no Integrate / Locate
			if(two_d && cat == 2)
				cat = 3;
			Op o;
			if(!two_d && !c08 && r.chance(conc_frac))
			{
				int mode = (int) r.below(3);
				o		 = Op("conc", {c.slot, mode, mode == 0 ? (long long) r.irange(1, 4) : mode == 1 ? (long long) r.pick(std::vector<long long>{8, 30, 200, 2000}) : (long long) r.pick(std::vector<long long>{2, 5, 20}), (long long) (r.next() & 0xffffffffu), (long long) r.below(6), (long long) r.below(6)});
				int n	 = 2 * (int) r.pick(std::vector<long long>{2, 4, 10, 30});
				for(int q = 0; q < n; q++)
					o.d.push_back(next_point(r, c, tab.xs, c.cursor));
			}
			else if(cat == 0 && !c08 && r.chance(0.05))
			{
				// a query that is also put to a fresh object in a pristine PROCESS (and, just before, to an object on another table)
				double x = next_point(r, c, tab.xs, c.cursor);
				if(two_d)
					o = Op("xprobe", {c.slot, 0, 0}, {x, next_point(r, c, tab.ys, c.cursor_y)});
				else
				{
					int qk = (int) r.pick(std::vector<long long>{0, 2, 2, 2, 3, 8});
					if(qk == 3)
						o = Op("xprobe", {c.slot, 3, 0}, {x, next_point(r, c, tab.xs, c.cursor)});
					else
						o = Op("xprobe", {c.slot, qk, (long long) r.irange(1, 3)}, {x});
				}
			}
			else if(cat == 0)
			{
				double x = next_point(r, c, tab.xs, c.cursor);
				if(two_d)
				{
					double y = next_point(r, c, tab.ys, c.cursor_y);
					o		 = Op(r.chance(0.5) ? "interp" : "call", {c.slot}, {x, y});
				}
				else
				{
					int w = (int) r.below(10);
					if(w < 5)
						o = Op("interp", {c.slot}, {x});
					else if(w < 6)
						o = Op("call", {c.slot}, {x});
					else
						o = Op("deriv", {c.slot, (long long) r.pick(std::vector<long long>{0, 1, 1, 2, 2, 3, 3, 4})}, {x});
				}
			}
			else if(cat == 1)
			{
				double a = next_point(r, c, tab.xs, c.cursor);
				long cj	 = c.cursor;
				double b;
				if(r.chance(0.3))
					b = point(r, tab.xs, cj, (int) r.below(3));	  // inside one interval
				else
					b = next_point(r, c, tab.xs, c.cursor);
				if(r.chance(0.04))
					b = a;	 // equal limits
				if(r.chance(0.06))
					edge_pair(r, tab.xs, a, b);
				o = Op("integ", {c.slot}, {a, b});
			}
			else if(cat == 2)
			{
				double a = next_point(r, c, tab.xs, c.cursor);
				long cj	 = c.cursor;
				double b;
				int w = (int) r.below(4);
				if(w == 0)
					b = point(r, tab.xs, cj, (int) r.below(3));
				else if(w == 1)
					b = point(r, tab.xs, cj + r.irange(1, 4), (int) r.below(3));
				else
					b = next_point(r, c, tab.xs, c.cursor);
				if(r.chance(0.06))
					edge_pair(r, tab.xs, a, b);
				if(b < a)
					std::swap(a, b);
				o = Op(r.chance(0.5) ? "lmin" : "lmax", {c.slot}, {a, b});
			}
			else if(cat == 3)
			{
				o = Op(r.chance(0.5) ? "gmin" : "gmax", {c.slot});
			}
			else if(cat == 4)
			{
				o = Op("locate", {c.slot}, {next_point(r, c, tab.xs, c.cursor)});
			}
			else if(cat == 5)
			{
				double f  = prefactor(r);
				bool set  = r.chance(0.5);
				bool zero_game = false;
				if(net[c.slot] == 0.0)
				{
					// the prefactor is exactly zero: multiply it (stays zero, either sign) or set it to something again
					zero_game = true;
					set		  = r.chance(0.5);
					if(f == 0.0)
						f = -2.0;
				}
				else if(r.chance(0.08) && std::fabs(net[c.slot]) > 1e-8 && std::fabs(net[c.slot]) < 1e8)
				{
					// excursion: two consecutive Multiply calls that take the prefactor to the far end of the double range and
					// back (1e-150..1e-290 then its reciprocal power of ten, or the other way round). The prefactor itself stays
					// a normal number throughout; anything the object derived from it in between (a cached, pre-scaled table)
					// passes through underflow or overflow. No query sits between the two calls.
					double k10 = std::pow(10.0, (double) r.irange(150, 290));
					bool down  = r.chance(0.5);
					double f1 = r.sign() * (down ? 1.0 / k10 : k10), f2 = r.sign() * (down ? k10 : 1.0 / k10);
					p.ops.push_back(Op("mul", {c.slot}, {f1}));
					net[c.slot] *= f1;
					f		  = f2;
					set		  = false;
					zero_game = true;	// keeps the range clamp below from turning the way back into a Set_Prefactor
				}
				else if(r.chance(two_d ? 0.10 : 0.05))
				{
					// reach zero: directly, or by underflow of two tiny factors
					zero_game = true;
					if(r.chance(0.5))
						f = 0.0;
					else
					{
						// two tiny factors in a row: the running product underflows to (signed) zero at the second one
						f	= r.sign() * 1e-200;
						set = false;
						if(std::fabs(net[c.slot]) > 1e-100 && std::fabs(net[c.slot]) < 1e100)
						{
							p.ops.push_back(Op("mul", {c.slot}, {f}));
							net[c.slot] *= f;
							f = r.sign() * 1e-200;
						}
					}
				}
				double nn = set ? f : net[c.slot] * f;
				if(!zero_game && !(std::fabs(nn) > 1e-60 && std::fabs(nn) < 1e60))
				{
					set = true;
					nn	= f;
				}
				net[c.slot] = nn;
				o			= Op(set ? "setpref" : "mul", {c.slot}, {f});
			}
			else if(cat == 6)
			{
				int mode = (int) r.pick(std::vector<long long>{0, 1, 1, 2, 3, 4, 5, 6});
				int dst	 = (int) r.below(4);
				if(mode == 5 && (!live[dst] || dst == c.slot))
					mode = 0;	// swap needs two live objects
				if(mode == 2 || mode == 6)
					dst = c.slot;
				else if(dst == c.slot)
					dst = (dst + 1) % 4;
				o = Op("copy", {c.slot, dst, mode});
				if(mode == 5)
					std::swap(net[dst], net[c.slot]);
				else if(mode != 2 && mode != 6)
				{
					live[dst] = true;
					net[dst]  = net[c.slot];
					if(mode == 3 || mode == 4)
					{
						live[c.slot] = false;
						for(auto& cc : cl)
							if(cc.slot == c.slot && &cc != &c && r.chance(0.5))
								cc.slot = dst;
						c.slot = dst;
					}
					else if(r.chance(0.6))
						c.slot = dst;	// carry on with the copy
				}
			}
			else
				o = Op("sweep", {c.slot});
			if(o.kind.empty())
				o = Op("gmin", {c.slot});
			p.ops.push_back(o);
		}
		p.ops.push_back(Op("sweep", {cl[0].slot}));
		return p;
	}
};

struct InterpEngine : Engine
{
	const char* name() const override { return "interp"; }
	std::vector<std::string> probe_names() const override { return std::vector<std::string>(PROBE_NAMES, PROBE_NAMES + P_NPROBES); }
	std::vector<std::string> metric_names() const override { return {"worst_integral_error_over_allowed", "worst_extremum_excess_over_allowed", "worst_knot_difference_over_allowed"}; }
	int default_runs(const Opts& o) const override { return o.tier == "thorough" ? 60000 : 3000; }
	Plan generate(uint64_t seed, const Opts& o) override { return Gen(seed, o).generate(); }
	void execute(const Plan& p, Ctx& ctx) override { Exec(ctx, p).run(); }
	bool removable(const Op& op) const override { return op.kind != "table"; }
	std::vector<Plan> simplify(const Plan& p) const override
	{
		std::vector<Plan> out;
		if(p.ops.empty() || p.ops[0].kind != "table")
			return out;
		Table t;
		if(!table_from_op(p.ops[0], t))
			return out;
		// collect arguments still used by query ops
		std::vector<double> used;
		for(auto& o : p.ops)
			if(o.kind != "table" && o.kind != "alt" && o.kind != "altdefault" && o.kind != "setpref" && o.kind != "mul")
				for(double v : o.d)
					used.push_back(v);
		// 0. large 1D tables: keep only the neighbourhood (+-2 knots) of every argument still in use, plus both ends
		if(!t.two_d && t.x.size() > 12)
		{
			for(long halo : {2l, 6l})
			{
				std::vector<bool> keep(t.x.size(), false);
				keep[0] = keep[1] = keep[t.x.size() - 1] = keep[t.x.size() - 2] = true;
				for(double v : used)
				{
					long j = seg_of(t.xs, v);
					for(long q = std::max(0l, j - halo); q <= std::min((long) t.x.size() - 1, j + 1 + halo); q++)
						keep[q] = true;
				}
				Table q = t;
				q.x.clear();
				q.f.clear();
				for(size_t k = 0; k < t.x.size(); k++)
					if(keep[k])
					{
						q.x.push_back(t.x[k]);
						q.f.push_back(t.f[k]);
					}
				if(q.x.size() >= 3 && q.x.size() < t.x.size())
				{
					q.derive();
					bool ok = true;
					for(double v : used)
						if(!arg_valid(q.xs, v))
							ok = false;
					if(ok)
					{
						Plan c	 = p;
						c.ops[0] = table_op("table", q);
						out.push_back(c);
					}
				}
			}
		}
		// 1. drop a knot (1D: any knot such that all query arguments stay valid; keep >= 3)
		if(!t.two_d && t.x.size() > 3)
		{
			for(size_t drop = 0; drop < t.x.size() && out.size() < 24; drop++)
			{
				size_t k = (drop * 7919) % t.x.size();
				Table q	 = t;
				q.x.erase(q.x.begin() + k);
				q.f.erase(q.f.begin() + k);
				q.derive();
				bool ok = true;
				for(double v : used)
					if(!arg_valid(q.xs, v))
						ok = false;
				if(!ok)
					continue;
				Plan c	 = p;
				c.ops[0] = table_op("table", q);
				out.push_back(c);
			}
		}
		// 2. remove unit factors, use the plain constructor
		if(t.x_dim > 0 || t.f_dim > 0 || t.y_dim > 0 || t.table_ctor)
		{
			Table q = t;
			q.x		= t.xs;
			q.y		= t.ys;
			q.f		= t.fs;
			q.x_dim = q.y_dim = q.f_dim = -1;
			q.table_ctor				= false;
			q.derive();
			Plan c	 = p;
			c.ops[0] = table_op("table", q);
			out.push_back(c);
		}
		// 3. retarget every op to slot 0 / simplify prefactors
		{
			Plan c		 = p;
			bool changed = false;
			for(auto& o : c.ops)
				if((o.kind == "setpref" || o.kind == "mul") && o.d.size() == 1 && o.d[0] != -2.0 && o.d[0] != 2.0)
				{
					o.d[0]	= o.d[0] < 0 ? -2.0 : 2.0;
					changed = true;
				}
			if(changed)
				out.push_back(c);
		}
		// 4. round ordinates to small integers
		{
			Table q		 = t;
			bool changed = false;
			double m	 = 0;
			for(double v : q.f)
				m = std::max(m, std::fabs(v));
			if(m > 0)
				for(auto& v : q.f)
				{
					double nv = std::round(v / m * 8);
					if(nv != v)
						changed = true;
					v = nv;
				}
			if(changed)
			{
				q.derive();
				Plan c	 = p;
				c.ops[0] = table_op("table", q);
				out.push_back(c);
			}
		}
		return out;
	}
};
}	// namespace

sim::Engine* make_interp_engine() { return new InterpEngine(); }
