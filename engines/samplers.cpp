// Engine `samplers` (C18): one caller-owned std::mt19937 shared by 1-4 client tasks, each bound to a
// sampler family; the seeded scheduler interleaves their calls. Per-op oracle (exact): replay from the
// generator state (outputs bit-identical, equal states handed back), support/domain, sample counts,
// vector = sequence of scalars, no entropy from anywhere else. Law oracle (statistical, DKW at 1e-12):
// pools collected while other samplers interleave on the same generator.
#include "../sim/sim.hpp"
#include "../sim/preempt.hpp"

#include <algorithm>
#include <fenv.h>
#include <random>
#include <stdexcept>
#include <sstream>

#include "libphysica/Statistics.hpp"

using namespace sim;

namespace
{
enum Probe
{
	P_OPS,
	P_REPLAY_CHECKS,
	P_POISSON_GT500,
	P_POISSON_GT1000,
	P_METRO_OUTSIDE_CAND,
	P_REJ_ITER10,
	P_REJ_WARN,
	P_SEED_EDGE,
	P_DISCARD,
	P_NONFRESH_START,
	P_METRO_GRID,
	P_LAW_POOLS,
	P_LAW_SAMPLES,
	P_LAW_INTRUDERS,
	P_VPOISSON,
	P_PRISTINE,
	P_ABORTED,
	P_PLANT,
	P_TRAPS,
	P_CONC,
	P_CONC_POINTS,
	P_CONC_SWITCHES,
	P_KIND0,
	P_NPROBES = P_KIND0 + 9
};
const char* PROBE_NAMES[] = {"sampler_ops", "replay_from_state_checks", "poisson_mean_above_500", "poisson_mean_above_1000", "metropolis_bounded_domain_calls", "rejection_loop_10_or_more_iterations", "rejection_inefficiency_warning_branch", "fault_generator_edge_seed(0,1,5489,2^32-1)", "fault_generator_discard", "op_started_from_used_generator_state", "metropolis_grid_triples", "law_pools", "law_samples", "law_interleaved_intruder_calls", "vector_poisson_ops", "comparisons_with_a_pristine_process", "fault_user_callback_throws_mid_call", "fault_generator_state_with_planted_extreme_words(u=0_or_u=1-2^-53)", "runs_with_floating_point_traps_enabled_around_library_calls", "pairs_of_calls_run_on_two_threads_at_once", "scheduling_points_(static_storage_accesses)_inside_paired_calls", "preemptions_inside_paired_calls", "kind_uniform", "kind_gauss", "kind_poisson", "kind_inverse_transform", "kind_rejection", "kind_rejection_2d", "kind_metropolis", "kind_metropolis_2d", "kind_vector_poisson"};
enum Metric
{
	M_DKW,	 // worst D / bound
	M_MOMENT
};

// kinds: 0 uniform 1 gauss 2 poisson 3 its 4 rej 5 rej2 6 metro 7 metro2 8 vpoisson
struct Spec
{
	int kind = 0, family = 0;
	unsigned sample = 1, thin = 1, burn = 0;
	int bounded = 0;
	int pristine = 0;	// also compare with the same call in a pristine process
	std::vector<double> p;	 // parameters (meaning depends on kind/family)
};
const char* KINDS[] = {"uniform", "gauss", "poisson", "its", "rej", "rej2", "metro", "metro2", "vpoisson"};

Op spec_op(const Spec& s)
{
	Op o(KINDS[s.kind]);
	o.i = {s.family, (long long) s.sample, (long long) s.thin, (long long) s.burn, s.bounded, s.pristine};
	o.d = s.p;
	return o;
}
bool op_spec(const Op& o, Spec& s)
{
	s.kind = -1;
	for(int k = 0; k < 9; k++)
		if(o.kind == KINDS[k])
			s.kind = k;
	if(s.kind < 0 || o.i.size() < 5)
		return false;
	s.family  = (int) o.i[0];
	s.sample  = (unsigned) o.i[1];
	s.thin	  = (unsigned) std::max(1ll, o.i[2]);
	s.burn	  = (unsigned) o.i[3];
	s.bounded = (int) o.i[4];
	s.pristine = o.i.size() > 5 ? (int) o.i[5] : 0;
	s.p		  = o.d;
	static const size_t need[] = {2, 2, 1, 3, 4, 6, 5, 6, 0};
	return s.p.size() >= need[s.kind];
}

// ---------------------------------------------------------------- target shapes on the unit interval t in [0,1]
// shape 0: triangular with mode m (pdf 2t/m for t<m, 2(1-t)/(1-m) above); 1: truncated gaussian(m, s); 2: sin^2(pi t); 3: exponential(rate r) truncated; 4: power t^k; 5: uniform
double shape_pdf(int sh, double a, double b, double t)
{
	if(t < 0 || t > 1)
		return 0.0;
	switch(sh)
	{
		case 0: return t < a ? 2 * t / a : 2 * (1 - t) / (1 - a);
		case 1:
		{
			double z = (t - a) / b;
			return std::exp(-0.5 * z * z);
		}
		case 2:
		{
			double s = std::sin(M_PI * t);
			return s * s;
		}
		case 3: return std::exp(-a * t);
		case 4: return std::pow(t, a);
		case 6: return (t > 0.4 && t < 0.6) ? 0.0 : 1.0;   // two plateaus separated by a gap: the cdf is flat in between
		default: return 1.0;
	}
}
double shape_max(int sh, double a, double b)
{
	switch(sh)
	{
		case 0: return 2.0;
		case 1: return 1.0;	  // mode inside [0,1] by construction
		case 2: return 1.0;
		case 3: return a >= 0 ? 1.0 : std::exp(-a);
		case 4: return 1.0;
		default: return 1.0;
	}
}
long double shape_cdf(int sh, double a, double b, double t)
{
	if(t <= 0)
		return 0.0L;
	if(t >= 1)
		return 1.0L;
	long double T = t, A = a, B = b;
	switch(sh)
	{
		case 0: return T < A ? T * T / A : 1 - (1 - T) * (1 - T) / (1 - A);
		case 1:
		{
			long double lo = erfl((0 - A) / (B * sqrtl(2.0L))), hi = erfl((1 - A) / (B * sqrtl(2.0L))), x = erfl((T - A) / (B * sqrtl(2.0L)));
			return (x - lo) / (hi - lo);
		}
		case 2: return T - sinl(2 * M_PIl * T) / (2 * M_PIl);
		case 3: return fabsl(A) < 1e-12L ? T : expm1l(-A * T) / expm1l(-A);
		case 4: return powl(T, A + 1);
		case 6: return T <= 0.4L ? T / 0.8L : T < 0.6L ? 0.5L : 0.5L + (T - 0.6L) / 0.8L;
		default: return T;
	}
}
double shape_mean_var(int sh, double a, double b, double& var)
{
	// numeric moments (1000-point midpoint rule on the normalised density; used for loose checks only)
	long double z = 0, m1 = 0, m2 = 0;
	for(int i = 0; i < 2000; i++)
	{
		double t	  = (i + 0.5) / 2000;
		long double w = shape_pdf(sh, a, b, t);
		z += w;
		m1 += w * t;
		m2 += w * t * t;
	}
	m1 /= z;
	m2 /= z;
	var = (double) (m2 - m1 * m1);
	return (double) m1;
}
// mean, variance and fourth central moment of the normalised shape on [0,1] (numeric, 20000-point midpoint rule)
void shape_moments(int sh, double a, double b, long double& mean, long double& var, long double& mu4)
{
	long double z = 0, m1 = 0;
	const int NQ = 20000;
	for(int i = 0; i < NQ; i++)
	{
		double t	  = (i + 0.5) / NQ;
		long double w = shape_pdf(sh, a, b, t);
		z += w;
		m1 += w * t;
	}
	mean = m1 / z;
	var = mu4 = 0;
	for(int i = 0; i < NQ; i++)
	{
		double t	  = (i + 0.5) / NQ;
		long double w = shape_pdf(sh, a, b, t) / z, d = t - mean;
		var += w * d * d;
		mu4 += w * d * d * d * d;
	}
}
long double Phi(long double z) { return 0.5L * erfcl(-z / sqrtl(2.0L)); }

// density (x'+y') on the unit square: marginal cdf and cdf of the sum
long double xy_marginal_cdf(long double t) { return t <= 0 ? 0 : t >= 1 ? 1 : t * t / 2 + t / 2; }
long double xy_sum_cdf(long double s) { return s <= 0 ? 0 : s >= 2 ? 1 : s <= 1 ? s * s * s / 3 : s * s - s * s * s / 3 - 1.0L / 3; }

struct Counters
{
	uint64_t rej_iters = 0, metro_outside = 0;
	uint64_t abort_at = 0;	 // fault: the user's density / CDF throws at its abort_at-th evaluation
	uint64_t evals	  = 0;
};
struct AbortCall
{
};

// Executes one sampler call; returns the flattened outputs.
// plant two equal output words `val` at distance pos, pos+1 ahead of the generator's current position
static uint32_t mt_untemper(uint32_t y)
{
	y ^= y >> 18;
	y ^= (y << 15) & 0xefc60000u;
	uint32_t t = y;
	for(int k = 0; k < 5; k++)
		t = y ^ ((t << 7) & 0x9d2c5680u);
	y = t;
	t = y;
	for(int k = 0; k < 3; k++)
		t = y ^ (t >> 11);
	return t;
}
// which: 0 both words of the pair, 1 only the first, 2 only the second (a single extreme 32-bit word is met once in 4e9 draws)
void plant_words(std::mt19937& G, unsigned pos, uint32_t val, int which = 0)
{
	for(int attempt = 0; attempt < 2; attempt++)
	{
		std::stringstream ss;
		ss << G;
		std::vector<unsigned long> w;
		unsigned long v;
		while(ss >> v)
			w.push_back(v);
		if(w.size() != 625)
			return;
		unsigned long idx = w[624];
		if(idx + pos + 1 >= 624)
		{
			if(attempt)
				return;
			G.discard(idx >= 624 ? 1 : 624 - idx + 1);	 // cross the next twist, then plant behind it
			continue;
		}
		if(which != 2)
			w[idx + pos] = mt_untemper(val);
		if(which != 1)
			w[idx + pos + 1] = mt_untemper(val);
		std::stringstream out;
		for(size_t k = 0; k < w.size(); k++)
			out << (k ? " " : "") << w[k];
		out >> G;
		return;
	}
}

// ambient floating-point TRAP mask: a host application may run with feenableexcept(FE_INVALID | FE_DIVBYZERO | FE_OVERFLOW), so
// that an invalid operation (0/0, an ordered comparison with NaN), a division by zero or an overflow inside a call raises SIGFPE
// instead of quietly setting a flag. Enabled around the library call only (the oracles do their own arithmetic), in a tenth of
// the runs, for the samplers whose pinned implementation performs no such operation on valid requests (see TrapScope).
static int g_trap_mask = 0;
struct TrapScope
{
	int old = 0;
	bool on = false;
	explicit TrapScope(int kind)
	{
		// Metropolis and rejection sampling are left out: on the pinned tree a density that vanishes at the current point makes
		// the acceptance ratio 0/0 (FE_INVALID) on perfectly valid requests, so those samplers do not run under a trap mask at all
		on = g_trap_mask && (kind <= 3 || kind == 8);
		if(on)
		{
			std::feclearexcept(FE_ALL_EXCEPT);
			old = feenableexcept(g_trap_mask);
		}
	}
	~TrapScope()
	{
		if(on)
		{
			fedisableexcept(FE_ALL_EXCEPT);
			std::feclearexcept(FE_ALL_EXCEPT);
			if(old > 0)
				feenableexcept(old);
		}
	}
};
std::vector<double> draw_untrapped(std::mt19937& G, const Spec& s, Counters* cnt);
std::vector<double> draw(std::mt19937& G, const Spec& s, Counters* cnt = nullptr)
{
	TrapScope traps(s.kind);
	return draw_untrapped(G, s, cnt);
}
std::vector<double> draw_untrapped(std::mt19937& G, const Spec& s, Counters* cnt)
{
	const std::vector<double>& p = s.p;
	auto tick = [cnt]() {
		if(cnt && cnt->abort_at && ++cnt->evals == cnt->abort_at)
			throw AbortCall();
	};
	switch(s.kind)
	{
		case 0:
			if(p[0] == std::floor(p[0]) && p[1] == std::floor(p[1]) && std::fabs(p[0]) < 1e6 && std::fabs(p[1]) < 1e6)
				return {libphysica::Sample_Uniform(G, (int) p[0], (int) p[1])};   // whole-number limits written as ints (see kind 4)
			return {libphysica::Sample_Uniform(G, p[0], p[1])};
		case 1: return {libphysica::Sample_Gauss(G, p[0], p[1])};
		case 2: return {(double) libphysica::Sample_Poisson(G, p[0])};
		case 8:
		{
			std::vector<unsigned int> v = libphysica::Sample_Poisson(G, p);
			return std::vector<double>(v.begin(), v.end());
		}
		case 3:
		{
			// p: a, b, xmin, xmax ; family = shape
			double x0 = p[2], x1 = p[3];
			int sh = s.family;
			double a = p[0], b = p[1];
			std::function<double(double)> cdf = [=](double x) {
				tick();
				return (double) shape_cdf(sh, a, b, (x - x0) / (x1 - x0));
			};
			return {libphysica::Inverse_Transform_Sampling(cdf, x0, x1, G)};
		}
		case 4:
		{
			// p: a, b, xmin, xmax, factor
			double x0 = p[2], x1 = p[3];
			int sh = s.family;
			double a = p[0], b = p[1];
			uint64_t calls						= 0;
			double scale						= p.size() > 5 ? p[5] : 1.0;   // the density need not be normalised: any positive scale
			std::function<double(double)> pdf = [&, sh, a, b, x0, x1, scale](double x) {
				  tick();
				  calls++;
				  return scale * shape_pdf(sh, a, b, (x - x0) / (x1 - x0));
			};
			// Callers spell their requests in many ways. When the limits happen to be whole numbers they are passed the way a user
			// writes them - as int expressions, with the density as a plain lambda - so that overload resolution and implicit
			// conversions are part of what is exercised (the pinned API has exactly one candidate either way).
			double r;
			if(x0 == std::floor(x0) && x1 == std::floor(x1) && std::fabs(x0) < 1e6 && std::fabs(x1) < 1e6)
			{
				auto plain = [&, sh, a, b, x0, x1, scale](double x) {
					tick();
					calls++;
					return scale * shape_pdf(sh, a, b, (x - x0) / (x1 - x0));
				};
				r = libphysica::Rejection_Sampling(plain, (int) x0, (int) x1, scale * shape_max(sh, a, b) * p[4], G);
			}
			else
				r = libphysica::Rejection_Sampling(pdf, x0, x1, scale * shape_max(sh, a, b) * p[4], G);
			if(cnt)
				cnt->rej_iters = calls;
			return {r};
		}
		case 5:
		{
			// p: a, b, xmin, xmax, ymin, ymax, factor ; family 0: (x'+y'), 1: shape1(a,b)(x') * triangular(0.5)(y')
			double x0 = p[2], x1 = p[3], y0 = p[4], y1 = p[5];
			int fam = s.family;
			double a = p[0], b = p[1];
			uint64_t calls								 = 0;
			std::function<double(double, double)> pdf = [&, fam, a, b, x0, x1, y0, y1](double x, double y) {
				 tick();
				 calls++;
				 double tx = (x - x0) / (x1 - x0), ty = (y - y0) / (y1 - y0);
				 return fam == 0 ? tx + ty : shape_pdf(1, a, b, tx) * shape_pdf(0, 0.5, 0, ty);
			};
			double zmax = (fam == 0 ? 2.0 : 2.0) * p[6];
			auto r		= libphysica::Rejection_Sampling_2D(G, pdf, x0, x1, y0, y1, zmax);
			if(cnt)
				cnt->rej_iters = calls;
			return {r.first, r.second};
		}
		case 6:
		{
			// p: sigma_prop, m, w, dom0, dom1 ; family 0 gauss(m,w) 1 laplace(m,w) [unbounded]; 2 truncgauss(m,w as fraction) 3 triangular(mode m fraction) 4 uniform [bounded]
			double m = p[1], w = p[2], d0 = p[3], d1 = p[4];
			int fam = s.family;
			uint64_t outside				  = 0;
			bool strict						  = s.bounded && fam >= 2 && fam <= 4 && (bits(p[0]) & 1);
			std::function<double(double)> pdf = [&, fam, m, w, d0, d1](double x) -> double {
				tick();
				if(fam == 0)
				{
					double z = (x - m) / w;
					return std::exp(-0.5 * z * z);
				}
				if(fam == 1)
					return std::exp(-std::fabs(x - m) / w);
				if(fam == 5)
					return std::fabs(x - m) <= w ? 1.0 : 0.0;	// compact support far from the start: density exactly 0 around the origin
				double t = (x - d0) / (d1 - d0);
				if(t < 0 || t > 1)
				{
					outside++;
					// half of the bounded requests come with a density that is DEFINED only on the requested domain (a tabulated
					// function, a formula with a square root): asked anywhere else it throws, as such a function would exit or
					// raise. A sampler that honours the domain never asks.
					if(strict)
						throw std::domain_error(fmt("density evaluated at %.17g, outside the requested domain [%.17g,%.17g] on which alone it is defined", x, d0, d1));
				}
				return fam == 2 ? shape_pdf(1, m, w, t) : fam == 3 ? shape_pdf(0, m, 0, t) + 1e-300 : 1.0;
			};
			std::vector<double> dom;
			if(s.bounded)
				dom = {d0, d1};
			std::vector<double> r = libphysica::Sample_Metropolis(G, pdf, p[0], s.sample, s.thin, s.burn, dom);
			if(cnt)
				cnt->metro_outside = outside;
			return r;
		}
		case 7:
		{
			// p: sx, sy, mx, wx, my, wy, (dom x0,x1,y0,y1 if bounded) ; family 0 product gauss [unbounded]; 1 (x'+y') on the box [bounded]
			int fam = s.family;
			double mx = p[2], wx = p[3], my = p[4], wy = p[5];
			double x0 = p.size() > 9 ? p[6] : 0, x1 = p.size() > 9 ? p[7] : 1, y0 = p.size() > 9 ? p[8] : 0, y1 = p.size() > 9 ? p[9] : 1;
			bool strict2 = s.bounded && fam == 1 && p.size() > 9 && (bits(p[0]) & 1);
			std::function<double(double, double)> pdf = [=](double x, double y) -> double {
				tick();
				if(fam == 0)
				{
					double zx = (x - mx) / wx, zy = (y - my) / wy;
					return std::exp(-0.5 * (zx * zx + zy * zy));
				}
				if(fam == 2)
				{
					// correlated Gaussian, correlation rho = p[6]
					double zx = (x - mx) / wx, zy = (y - my) / wy, rho = p[6];
					return std::exp(-0.5 * (zx * zx - 2 * rho * zx * zy + zy * zy) / (1 - rho * rho));
				}
				if(strict2 && !(x >= x0 && x <= x1 && y >= y0 && y <= y1))
					throw std::domain_error(fmt("density evaluated at (%.17g,%.17g), outside the requested domain on which alone it is defined", x, y));
				return (x - x0) / (x1 - x0) + (y - y0) / (y1 - y0) + 1e-300;
			};
			std::vector<double> dom;
			if(s.bounded)
				dom = {x0, x1, y0, y1};
			auto r = libphysica::Sample_Metropolis_2D(G, pdf, {p[0], p[1]}, s.sample, s.thin, s.burn, dom);
			std::vector<double> out;
			for(auto& q : r)
			{
				out.push_back(q.first);
				out.push_back(q.second);
			}
			return out;
		}
	}
	return {};
}

std::string describe(const Spec& s) { return spec_op(s).text().substr(0, 400); }

struct Exec
{
	Ctx& ctx;
	const Plan& plan;
	std::mt19937 G;
	bool fresh_state = true;
	int prev_kind	 = 9;
	std::vector<int> kinds_seen;
	bool nonfresh_start = false;
	Exec(Ctx& c, const Plan& p) : ctx(c), plan(p) {}

	RefServer ref;
	static std::string gen_text(const std::mt19937& g)
	{
		std::ostringstream os;
		os << g;
		return os.str();
	}
	static std::string pristine_handler(const std::string& req)
	{
		// request: first line = op text, rest = generator state; response: outputs (hexfloat, space separated) | state after
		size_t nl = req.find('\n');
		Op o;
		Spec s;
		if(nl == std::string::npos || !Op::parse(req.substr(0, nl), o) || !op_spec(o, s))
			return "bad";
		std::mt19937 g;
		std::istringstream is(req.substr(nl + 1));
		is >> g;
		std::vector<double> out = draw(g, s);
		std::string r;
		for(double v : out)
			r += hexf(v) + " ";
		return r + "|" + gen_text(g);
	}
	void compare_pristine(const Spec& s, const std::mt19937& pre, const std::vector<double>& out)
	{
		if(!ref.running())
			return;
		std::string resp;
		bool ok = true;
		if(!ref.ask(spec_op(s).text() + "\n" + gen_text(pre), resp, ok))
			return;
		ctx.probe(P_PRISTINE);
		if(!ok)
			ctx.violate("C18:terminated-on-valid-request", "the same sampler call in a pristine process did not return; " + describe(s));
		std::string mine;
		for(double v : out)
			mine += hexf(v) + " ";
		mine += "|" + gen_text(G);
		if(mine != resp)
			ctx.violate("C18:pristine-process", "from the same generator state this call returned other samples or left another generator state than the identical call in a pristine process (hidden state shared between calls); " + describe(s));
	}

	bool planted_u = false;	  // the uniform deviate behind the current single-draw call is a planted extreme (0 or 1-2^-53)
	bool consumed_zero_deviate = false;	  // some 64-bit deviate consumed by the current call was exactly 0 (planted)
	void check_support(const Spec& s, const std::vector<double>& out)
	{
		const std::vector<double>& p = s.p;
		auto bad = [&](const std::string& why) { ctx.violate("C18:support", why + "; " + describe(s)); };
		for(double v : out)
			if(!std::isfinite(v))
				bad(fmt("non-finite sample %g", v));
		switch(s.kind)
		{
			case 0:
				if(out[0] < p[0] || out[0] > p[1])
					bad(fmt("uniform sample %.17g outside [%.17g,%.17g]", out[0], p[0], p[1]));
				break;
			case 1:
				// a Gaussian deviate beyond 9 standard deviations has probability 2e-19: not a fluctuation but a broken tail
				if(std::fabs(out[0] - p[0]) > 9.0 * p[1] && !planted_u)
					ctx.violate("C18:law:gauss-outlier", fmt("Sample_Gauss returned %.17g = mean %+.2f sigma (probability < 1e-18 under the stated law)", out[0], (out[0] - p[0]) / p[1]) + "; " + describe(s));
				break;
			case 2:
			case 8:
				for(double v : out)
					if(v < 0 || v != std::floor(v))
						bad(fmt("Poisson sample %.17g is not a non-negative integer", v));
				// a Poisson variate further than 12 standard deviations (+12) from its mean has probability below 1e-30: a broken
				// tail, not a fluctuation - unless one of the uniform deviates consumed was a planted exact zero
				if(!consumed_zero_deviate)
					for(size_t k = 0; k < out.size(); k++)
					{
						double lam = s.kind == 2 ? p[0] : p[k];
						if(std::fabs(out[k] - lam) > 12.0 * std::sqrt(lam) + 12.0)
							ctx.violate("C18:law:poisson-outlier", fmt("Sample_Poisson returned %.0f for mean %.17g (%+.1f standard deviations; probability < 1e-30 under the stated law)", out[k], lam, (out[k] - lam) / std::sqrt(lam)) + "; " + describe(s));
					}
				break;
			case 3:
			case 4:
				if(out[0] < p[2] || out[0] > p[3])
					bad(fmt("sample %.17g outside [%.17g,%.17g]", out[0], p[2], p[3]));
				break;
			case 5:
				if(out[0] < p[2] || out[0] > p[3] || out[1] < p[4] || out[1] > p[5])
					bad(fmt("2D sample (%.17g,%.17g) outside the box", out[0], out[1]));
				break;
			case 6:
				if(s.bounded)
					for(double v : out)
						if(v < p[3] || v > p[4])
							bad(fmt("Metropolis sample %.17g outside the requested domain [%.17g,%.17g]", v, p[3], p[4]));
				break;
			case 7:
				if(s.bounded)
					for(size_t k = 0; k + 1 < out.size(); k += 2)
						if(out[k] < p[6] || out[k] > p[7] || out[k + 1] < p[8] || out[k + 1] > p[9])
							bad(fmt("Metropolis 2D sample (%.17g,%.17g) outside the requested domain", out[k], out[k + 1]));
				break;
			default: break;
		}
		if(s.kind == 6 && s.family == 5 && s.sample >= 2 && (uint64_t) (s.sample - 1) * s.thin >= 100)
		{
			// wherever the chain is, >= 100 steps without a single accepted move has probability < 1e-15 for these proposals:
			// outside the support every move is accepted (0/0 and x/0 ratios), inside about two thirds are
			bool all_same = true;
			for(double v : out)
				all_same = all_same && v == out[0];
			if(all_same)
				ctx.violate("C18:law:metropolis-stuck", fmt("Sample_Metropolis returned %zu identical samples (%.17g) over %llu steps: the chain never moved", out.size(), out[0], (unsigned long long) (s.sample - 1) * s.thin) + "; " + describe(s));
		}
		if(s.kind == 6 && out.size() != s.sample)
			ctx.violate("C18:sample-count", fmt("Sample_Metropolis returned %zu samples, requested %u (thinning %u, burn_in %u)", out.size(), s.sample, s.thin, s.burn) + "; " + describe(s));
		if(s.kind == 7 && out.size() != 2 * (size_t) s.sample)
			ctx.violate("C18:sample-count", fmt("Sample_Metropolis_2D returned %zu samples, requested %u (thinning %u, burn_in %u)", out.size() / 2, s.sample, s.thin, s.burn) + "; " + describe(s));
		if(s.kind == 8 && out.size() != s.p.size())
			ctx.violate("C18:sample-count", fmt("vector Sample_Poisson returned %zu values for %zu means", out.size(), s.p.size()));
	}

	// Two callers inside the library at once, each with a generator of its own: "consumes randomness only from the generator passed
	// to it" means that neither call can tell. The two calls (each repeated `reps` times) run on two threads under the pre-emptive
	// scheduler of sim/preempt.cpp and must give exactly the outputs and final generator states of the same calls made one after
	// the other.
	void exec_conc(const Op& o)
	{
		size_t bar = o.s.find(" || ");
		Op oa, ob;
		Spec sa, sb;
		if(bar == std::string::npos || !Op::parse(o.s.substr(0, bar), oa) || !Op::parse(o.s.substr(bar + 4), ob) || !op_spec(oa, sa) || !op_spec(ob, sb) || o.i.size() < 6)
			return;
		int mode = (int) o.i[0], reps = (int) std::max(1ll, std::min(50ll, o.i[5]));
		uint64_t arg = (uint64_t) std::max(1ll, o.i[1]);
		uint32_t seed_a = (uint32_t) o.i[2], seed_b = (uint32_t) o.i[3];
		auto many = [reps](std::mt19937& g, const Spec& s, std::vector<double>& out) {
			for(int k = 0; k < reps; k++)
			{
				std::vector<double> v = draw(g, s);
				out.insert(out.end(), v.begin(), v.end());
			}
		};
		std::mt19937 ga(seed_a), gb(seed_b), ga2(seed_a), gb2(seed_b);
		std::vector<double> a1, b1, a2, b2;
		many(ga, sa, a1);
		many(gb, sb, b1);
		sim::preempt::Stats st = sim::preempt::run_pair([&] { many(ga2, sa, a2); }, [&] { many(gb2, sb, b2); }, (uint64_t) o.i[4], mode, arg);
		ctx.probe(P_CONC);
		ctx.probe(P_CONC_POINTS, st.points);
		ctx.probe(P_CONC_SWITCHES, st.switches);
		ctx.log.u64(a2.size());
		ctx.log.u64(b2.size());
		auto same = [](const std::vector<double>& x, const std::vector<double>& y) {
			if(x.size() != y.size())
				return false;
			for(size_t k = 0; k < x.size(); k++)
				if(!same_bits(x[k], y[k]))
					return false;
			return true;
		};
		for(int w = 0; w < 2; w++)
		{
			const std::vector<double>&x = w ? b1 : a1, &y = w ? b2 : a2;
			bool gen_same = w ? (gb == gb2) : (ga == ga2);
			if(!same(x, y) || !gen_same)
			{
				size_t d = 0;
				while(d < x.size() && d < y.size() && same_bits(x[d], y[d]))
					d++;
				ctx.violate("C18:concurrent-callers", fmt("%d call(s) of %s on a generator of their own (seed %u) give other results while another thread is inside %s with ITS own generator than when made alone: %zu vs %zu values, first difference at #%zu (%.17g alone, %.17g with the other caller), final generator state %s; %llu scheduling points, %llu pre-emptions", reps, describe(w ? sb : sa).c_str(), w ? seed_b : seed_a, describe(w ? sa : sb).c_str(), x.size(), y.size(), d, d < x.size() ? x[d] : 0.0, d < y.size() ? y[d] : 0.0, gen_same ? "equal" : "different", (unsigned long long) st.points, (unsigned long long) st.switches));
			}
		}
	}

	void exec_sampler(const Spec& s)
	{
		ctx.probe(P_OPS);
		ctx.probe(P_KIND0 + s.kind);
		if(!fresh_state)
		{
			ctx.probe(P_NONFRESH_START);
			nonfresh_start = true;
		}
		if(std::find(kinds_seen.begin(), kinds_seen.end(), s.kind) == kinds_seen.end())
			kinds_seen.push_back(s.kind);
		if((s.kind == 2 && s.p[0] > 500) || (s.kind == 8 && !s.p.empty() && *std::max_element(s.p.begin(), s.p.end()) > 500))
			ctx.probe(P_POISSON_GT500);
		if((s.kind == 2 && s.p[0] > 1000) || (s.kind == 8 && !s.p.empty() && *std::max_element(s.p.begin(), s.p.end()) > 1000))
			ctx.probe(P_POISSON_GT1000);
		if(s.kind == 6 || s.kind == 7)
			ctx.probe(P_METRO_GRID);
		uint32_t pbucket = 0;
		if(s.kind == 2)
			pbucket = s.p[0] < 1 ? 0 : s.p[0] < 30 ? 1 : s.p[0] <= 500 ? 2 : s.p[0] <= 1000 ? 3 : 4;
		else if(s.kind == 4 || s.kind == 5)
		{
			double factor = s.kind == 4 ? s.p[4] : s.p[6];
			pbucket		  = factor <= 1.0 ? 0 : factor < 3 ? 1 : factor < 30 ? 2 : 3;
		}
		else if(s.kind == 6 || s.kind == 7)
			pbucket = (s.sample == 0 ? 0 : s.sample < 10 ? 1 : 2) * 2 + (s.bounded ? 1 : 0);
		ctx.state(((uint32_t) s.kind * 10 + (uint32_t) prev_kind) * 3 * 8 + (fresh_state ? 0u : 1u) * 8 + pbucket);
		prev_kind = s.kind;

		std::mt19937 G2 = G;
		const std::mt19937 pre = G;
		{
			// is the first uniform deviate of this call an extreme planted by a `plant` op? (0: two zero words; 1-2^-53: two all-ones
			// words). Its image under the quantile function is a convention, not a fluctuation: the tail oracle steps aside.
			std::mt19937 peek = G;
			uint32_t w0 = (uint32_t) peek(), w1 = (uint32_t) peek();
			planted_u	= (w0 == 0 && w1 == 0) || (w0 == 0xffffffffu && w1 == 0xffffffffu);
		}
		Counters c1;
		std::vector<double> out = draw(G, s, &c1);
		if(s.pristine)
			compare_pristine(s, pre, out);
		for(double v : out)
			ctx.log.f64(v);
		if(c1.rej_iters >= 10)
			ctx.probe(P_REJ_ITER10);
		if(c1.rej_iters >= 1000)
			ctx.probe(P_REJ_WARN);
		if((s.kind == 6 || s.kind == 7) && s.bounded)
			ctx.probe(P_METRO_OUTSIDE_CAND);
		if(s.kind == 8)
			ctx.probe(P_VPOISSON);
		fresh_state = false;
		consumed_zero_deviate = false;
		if(s.kind == 2 || s.kind == 8)
		{
			std::mt19937 H = pre;
			for(long guard = 0; guard < 2000000 && !(H == G); guard++)
			{
				uint32_t w0 = (uint32_t) H(), w1 = (uint32_t) H();
				if(w0 == 0 && w1 == 0)
					consumed_zero_deviate = true;
			}
		}
		check_support(s, out);
		// replay from the same generator state: same outputs, same state handed back
		ctx.probe(P_REPLAY_CHECKS);
		std::vector<double> out2 = draw(G2, s);
		bool same				 = out.size() == out2.size();
		for(size_t k = 0; same && k < out.size(); k++)
			same = same_bits(out[k], out2[k]);
		if(!same)
			ctx.violate("C18:replay-from-state:output", fmt("two executions from equal generator states returned different samples (first %.17g ..., second %.17g ...; %zu vs %zu values)", out.empty() ? 0.0 : out[0], out2.empty() ? 0.0 : out2[0], out.size(), out2.size()) + "; " + describe(s));
		if(!(G == G2))
			ctx.violate("C18:replay-from-state:state", "two executions from equal generator states left different generator states behind; " + describe(s));
		if(entropy_draws_total() || entropy_other_sources())
			ctx.violate("C18:foreign-entropy", fmt("the sampler read %llu values from std::random_device and %llu from clock/rand sources", (unsigned long long) entropy_draws_total(), (unsigned long long) entropy_other_sources()) + "; " + describe(s));
	}

	void exec_vpoisson_equivalence(const Spec& s, const std::mt19937& before, const std::vector<double>& out)
	{
		std::mt19937 H = before;
		for(size_t k = 0; k < s.p.size(); k++)
		{
			double v = (double) libphysica::Sample_Poisson(H, s.p[k]);
			if(v != out[k])
				ctx.violate("C18:vector-poisson", fmt("vector Sample_Poisson element %zu is %.0f, the scalar call sequence gives %.0f", k, out[k], v));
		}
		if(!(H == G))
			ctx.violate("C18:vector-poisson", "vector Sample_Poisson leaves a different generator state than the scalar call sequence");
	}

	// ---------------- law pools
	static double dkw_eps(size_t n) { return std::sqrt(std::log(2.0e12) / (2.0 * (double) n)); }
	void dkw(const Spec& s, const char* what, std::vector<double> xs, const std::function<long double(double)>& cdf, double delta_model, bool discrete = false)
	{
		std::sort(xs.begin(), xs.end());
		size_t n = xs.size();
		double D = 0;
		if(discrete)
		{
			// both cdfs are step functions jumping at integers: the supremum is attained at an integer
			size_t k = 0;
			for(double j = std::floor(xs.front()) - 1; j <= std::ceil(xs.back()) + 1; j += 1.0)
			{
				while(k < n && xs[k] <= j)
					k++;
				D = std::max(D, (double) fabsl((long double) k / n - cdf(j)));
			}
		}
		else
		{
			size_t k = 0;
			while(k < n)
			{
				size_t e = k;
				while(e + 1 < n && xs[e + 1] == xs[k])
					e++;
				long double F = cdf(xs[k]);
				D			  = std::max(D, (double) std::max(fabsl((long double) (e + 1) / n - F), fabsl((long double) k / n - F)));
				k			  = e + 1;
			}
		}
		double bound = dkw_eps(n) + std::fabs(delta_model);
		ctx.metric_max(M_DKW, D / bound);
		ctx.log.f64(D);
		if(D > bound)
			ctx.violate(std::string("C18:law:") + KINDS[s.kind], fmt("%s: sup|F_n-F| = %.5f exceeds the DKW bound %.5f (n=%zu, level 1e-12, model slack %.2g)", what, D, bound, n, std::fabs(delta_model)) + "; " + describe(s));
	}

	// mean and variance of a pool against the target's moments, 7.5 standard errors (about 1e-13 two-sided per test)
	void moments(const Spec& s, const char* what, const std::vector<double>& xs, long double mean, long double var, long double mu4)
	{
		size_t n = xs.size();
		if(n < 10000 || !(var > 0))
			return;
		long double m = 0, v = 0;
		for(double x : xs)
			m += x;
		m /= n;
		for(double x : xs)
			v += ((long double) x - m) * ((long double) x - m);
		v /= (n - 1);
		double zm = (double) (fabsl(m - mean) / sqrtl(var / n));
		double zv = (double) (fabsl(v - var) / sqrtl(std::max(mu4 - var * var, 1e-300L) / n));
		ctx.metric_max(M_MOMENT, std::max(zm, zv) / 7.5);
		ctx.log.f64((double) m);
		if(zm > 7.5 || zv > 7.5)
			ctx.violate(std::string("C18:law-moments:") + KINDS[s.kind], fmt("%s: sample mean %.10Lg (target %.10Lg, %.1f standard errors), sample variance %.10Lg (target %.10Lg, %.1f standard errors), n=%zu", what, m, mean, zm, v, var, zv, n) + "; " + describe(s));
	}

	void exec_law(const Op& o)
	{
		// o.i: n, gap, intruder-kind..., then the pooled sampler as a nested op text in o.s
		Op inner;
		Spec s;
		if(!Op::parse(o.s, inner) || !op_spec(inner, s) || o.i.size() < 3)
			return;
		size_t n	 = (size_t) std::max(100ll, o.i[0]);
		unsigned gap = (unsigned) std::max(1ll, o.i[1]);
		int intruder = (int) o.i[2];
		ctx.probe(P_LAW_POOLS);
		ctx.probe(P_KIND0 + s.kind);
		ctx.state(5000 + (uint32_t) s.kind * 40 + (uint32_t) s.family * 8 + (uint32_t) (intruder + 1));
		std::vector<double> xs, ys;
		Spec intr;
		intr.kind = intruder;
		if(intruder == 0)
			intr.p = {0.0, 1.0};
		else if(intruder == 1)
			intr.p = {0.0, 1.0};
		else if(intruder == 2)
			intr.p = {3.5};
		uint64_t intr_calls = 0;
		for(size_t k = 0; k < n; k++)
		{
			if(intruder >= 0 && k % gap == gap - 1)
			{
				draw(G, intr);
				intr_calls++;
			}
			const bool recheck = (k % 997 == 499);	// deep inside a long sequence: state that builds up over many calls shows here
			std::mt19937 pre;
			if(recheck)
				pre = G;
			std::vector<double> out = draw(G, s);
			if(recheck)
			{
				ctx.probe(P_REPLAY_CHECKS);
				std::vector<double> out2 = draw(pre, s);
				bool same				 = out.size() == out2.size() && pre == G;
				for(size_t q = 0; same && q < out.size(); q++)
					same = same_bits(out[q], out2[q]);
				if(!same)
					ctx.violate("C18:replay-from-state:deep", fmt("draw number %zu of a long sequence: two executions from equal generator states differ in output or final state", k) + "; " + describe(s));
			}
			consumed_zero_deviate = true;	// pools may sit behind a planted state; the Poisson tail oracle is for single ops
			if(k < 64 || s.kind == 1)
				check_support(s, out);
			if(out.empty())
				continue;
			if(s.kind == 5 || s.kind == 7)
			{
				xs.push_back(out[out.size() - 2]);
				ys.push_back(out[out.size() - 1]);
			}
			else
				xs.push_back(out.back());
		}
		fresh_state = false;
		ctx.probe(P_LAW_SAMPLES, xs.size());
		ctx.probe(P_LAW_INTRUDERS, intr_calls);
		if(intr_calls)
			ctx.sh->nontrivial = 1;
		if(entropy_draws_total() || entropy_other_sources())
			ctx.violate("C18:foreign-entropy", "a sampler read entropy that did not come from the generator; " + describe(s));
		const std::vector<double>& p = s.p;
		switch(s.kind)
		{
			case 0:
				dkw(s, "Sample_Uniform", xs, [&](double x) { return (long double) ((x - p[0]) / (p[1] - p[0])); }, 0.0);
				{
					long double w = (long double) p[1] - p[0];
					moments(s, "Sample_Uniform", xs, p[0] + w / 2, w * w / 12, w * w * w * w / 80);
				}
				break;
			case 1:
				dkw(s, "Sample_Gauss", xs, [&](double x) { return Phi(((long double) x - p[0]) / p[1]); }, 6e-5);
				// (Inv_Erf's 1e-4 root tolerance moves each draw by at most 1.5e-4 sigma: far below 7.5 standard errors of the mean for n <= 4e5)
				moments(s, "Sample_Gauss", xs, p[0], (long double) p[1] * p[1], 3.0L * p[1] * p[1] * p[1] * p[1]);
				break;
			case 2:
			{
				double lam = p[0];
				// cdf table in long double via pmf recurrence in log space
				size_t kmax = (size_t) (lam + 40 * std::sqrt(lam) + 60);
				std::vector<long double> cdf(kmax + 1);
				long double acc = 0;
				for(size_t k = 0; k <= kmax; k++)
				{
					acc += expl(-(long double) lam + k * logl((long double) lam) - lgammal((long double) k + 1));
					cdf[k] = std::min(acc, 1.0L);
				}
				dkw(s, "Sample_Poisson", xs, [&](double x) { return x < 0 ? 0.0L : x >= kmax ? 1.0L : cdf[(size_t) x]; }, 0.0, true);
				long double m = 0, v = 0;
				for(double x : xs)
					m += x;
				m /= xs.size();
				for(double x : xs)
					v += (x - m) * (x - m);
				v /= (xs.size() - 1);
				double zm = (double) fabsl(m - lam) / std::sqrt(lam / xs.size());
				double zv = (double) fabsl(v - lam) / std::sqrt((lam + 2 * lam * lam) / xs.size());
				ctx.metric_max(M_MOMENT, std::max(zm, zv) / 7.0);
				if(zm > 7 || zv > 7)
					ctx.violate("C18:law:poisson-moments", fmt("Poisson(%.6g): sample mean %.8Lg (%.1f sigma), variance %.8Lg (%.1f sigma), n=%zu", lam, m, zm, v, zv, xs.size()));
				break;
			}
			case 3:
			{
				int sh = s.family;
				// a continuous law puts no mass on single points: samples sitting exactly on a bound betray a tolerance misused as a probability
				size_t at_bound = 0;
				for(double x : xs)
					if(x == p[2] || x == p[3])
						at_bound++;
				if(at_bound > 3)
					ctx.violate("C18:law:point-mass-at-bound", fmt("Inverse_Transform_Sampling returned the bound itself %zu times in %zu draws of a continuous law on [%.17g,%.17g]", at_bound, xs.size(), p[2], p[3]) + "; " + describe(s));
				dkw(s, "Inverse_Transform_Sampling", xs, [&](double x) { return shape_cdf(sh, p[0], p[1], (x - p[2]) / (p[3] - p[2])); }, 1e-9);
				{
					long double mean, var, mu4, w = (long double) p[3] - p[2];
					shape_moments(sh, p[0], p[1], mean, var, mu4);
					moments(s, "Inverse_Transform_Sampling", xs, p[2] + w * mean, w * w * var, w * w * w * w * mu4);
				}
				break;
			}
			case 4:
			{
				int sh = s.family;
				dkw(s, "Rejection_Sampling", xs, [&](double x) { return shape_cdf(sh, p[0], p[1], (x - p[2]) / (p[3] - p[2])); }, 0.0);
				{
					long double mean, var, mu4, w = (long double) p[3] - p[2];
					shape_moments(sh, p[0], p[1], mean, var, mu4);
					moments(s, "Rejection_Sampling", xs, p[2] + w * mean, w * w * var, w * w * w * w * mu4);
				}
				break;
			}
			case 5:
			{
				if(s.family == 0)
				{
					dkw(s, "Rejection_Sampling_2D x marginal", xs, [&](double x) { return xy_marginal_cdf((x - p[2]) / (p[3] - p[2])); }, 0.0);
					dkw(s, "Rejection_Sampling_2D y marginal", ys, [&](double y) { return xy_marginal_cdf((y - p[4]) / (p[5] - p[4])); }, 0.0);
					std::vector<double> sum;
					for(size_t k = 0; k < xs.size(); k++)
						sum.push_back((xs[k] - p[2]) / (p[3] - p[2]) + (ys[k] - p[4]) / (p[5] - p[4]));
					dkw(s, "Rejection_Sampling_2D projection x'+y'", sum, [&](double t) { return xy_sum_cdf(t); }, 0.0);
				}
				else
				{
					dkw(s, "Rejection_Sampling_2D x marginal", xs, [&](double x) { return shape_cdf(1, p[0], p[1], (x - p[2]) / (p[3] - p[2])); }, 0.0);
					dkw(s, "Rejection_Sampling_2D y marginal", ys, [&](double y) { return shape_cdf(0, 0.5, 0, (y - p[4]) / (p[5] - p[4])); }, 0.0);
				}
				break;
			}
			case 6:
			{
				double m = p[1], w = p[2], d0 = p[3], d1 = p[4];
				int fam = s.family;
				std::function<long double(double)> cdf;
				if(fam == 0)
					cdf = [=](double x) { return Phi(((long double) x - m) / w); };
				else if(fam == 1)
					cdf = [=](double x) { return x < m ? 0.5L * expl(((long double) x - m) / w) : 1 - 0.5L * expl(-((long double) x - m) / w); };
				else
					cdf = [=](double x) { return shape_cdf(fam == 2 ? 1 : fam == 3 ? 0 : 5, m, w, (x - d0) / (d1 - d0)); };
				if(s.sample == 1)
					dkw(s, "Sample_Metropolis (independent chains, one sample each)", xs, cdf, 1e-4 + 1e-6);
				break;
			}
			case 7:
			{
				if(s.sample != 1)
					break;
				if(s.family == 2)
				{
					long double rho = p[6];
					dkw(s, "Sample_Metropolis_2D (correlated) x marginal", xs, [&](double x) { return Phi(((long double) x - p[2]) / p[3]); }, 1e-4 + 1e-6);
					dkw(s, "Sample_Metropolis_2D (correlated) y marginal", ys, [&](double y) { return Phi(((long double) y - p[4]) / p[5]); }, 1e-4 + 1e-6);
					std::vector<double> sum, dif;
					for(size_t k = 0; k < xs.size(); k++)
					{
						double zx = (xs[k] - p[2]) / p[3], zy = (ys[k] - p[4]) / p[5];
						sum.push_back(zx + zy);
						dif.push_back(zx - zy);
					}
					dkw(s, "Sample_Metropolis_2D (correlated) projection zx+zy", sum, [&](double t) { return Phi((long double) t / sqrtl(2 + 2 * rho)); }, 1e-4 + 1e-6);
					dkw(s, "Sample_Metropolis_2D (correlated) projection zx-zy", dif, [&](double t) { return Phi((long double) t / sqrtl(2 - 2 * rho)); }, 1e-4 + 1e-6);
				}
				else if(s.family == 0)
				{
					dkw(s, "Sample_Metropolis_2D x marginal", xs, [&](double x) { return Phi(((long double) x - p[2]) / p[3]); }, 1e-4 + 1e-6);
					dkw(s, "Sample_Metropolis_2D y marginal", ys, [&](double y) { return Phi(((long double) y - p[4]) / p[5]); }, 1e-4 + 1e-6);
					std::vector<double> sum;
					for(size_t k = 0; k < xs.size(); k++)
						sum.push_back((xs[k] - p[2]) / p[3] + (ys[k] - p[4]) / p[5]);
					dkw(s, "Sample_Metropolis_2D projection", sum, [&](double t) { return Phi((long double) t / sqrtl(2.0L)); }, 1e-4 + 1e-6);
				}
				else
				{
					dkw(s, "Sample_Metropolis_2D x marginal", xs, [&](double x) { return xy_marginal_cdf((x - p[6]) / (p[7] - p[6])); }, 1e-4 + 1e-6);
					dkw(s, "Sample_Metropolis_2D y marginal", ys, [&](double y) { return xy_marginal_cdf((y - p[8]) / (p[9] - p[8])); }, 1e-4 + 1e-6);
					std::vector<double> sum;
					for(size_t k = 0; k < xs.size(); k++)
						sum.push_back((xs[k] - p[6]) / (p[7] - p[6]) + (ys[k] - p[8]) / (p[9] - p[8]));
					dkw(s, "Sample_Metropolis_2D projection x'+y'", sum, [&](double t) { return xy_sum_cdf(t); }, 1e-4 + 1e-6);
				}
				break;
			}
			default: break;
		}
	}

	// long thinned chain: count, containment and loose moment agreement
	void exec_chain(const Op& o)
	{
		Op inner;
		Spec s;
		if(!Op::parse(o.s, inner) || !op_spec(inner, s) || s.kind != 6)
			return;
		ctx.probe(P_OPS);
		ctx.probe(P_KIND0 + 6);
		std::vector<double> out = draw(G, s);
		fresh_state				= false;
		check_support(s, out);
		if(out.size() < 200)
			return;
		double m = s.p[1], w = s.p[2], d0 = s.p[3], d1 = s.p[4];
		double tm, tv;
		if(s.family == 0)
			tm = m, tv = w * w;
		else if(s.family == 1)
			tm = m, tv = 2 * w * w;
		else
		{
			double var;
			double mean = shape_mean_var(s.family == 2 ? 1 : s.family == 3 ? 0 : 5, m, w, var);
			tm			= d0 + mean * (d1 - d0);
			tv			= var * (d1 - d0) * (d1 - d0);
		}
		long double sm = 0, sv = 0;
		for(double x : out)
			sm += x;
		sm /= out.size();
		for(double x : out)
			sv += (x - sm) * (x - sm);
		sv /= out.size();
		ctx.log.f64((double) sm);
		if(std::fabs((double) sm - tm) > 0.6 * std::sqrt(tv) || (double) sv < 0.3 * tv || (double) sv > 3.0 * tv)
			ctx.violate("C18:law:metropolis-chain-moments", fmt("thinned Metropolis chain of %zu samples: mean %.6Lg variance %.6Lg, target mean %.6g variance %.6g", out.size(), sm, sv, tm, tv) + "; " + describe(s));
	}

	void run()
	{
		for(auto& o : plan.ops)
			if(o.i.size() > 5 && o.i[5] && o.kind != "law" && o.kind != "chain" && o.kind != "seed" && o.kind != "discard")
			{
				ref.start(pristine_handler);   // forked before this process has called libphysica
				break;
			}
		G.seed(5489u);
		g_trap_mask = 0;
		if(ctx.opts->get("traps", "") == "all" || (mix64(ctx.salt ^ 0x7247ull) % 10) == 0)
		{
			g_trap_mask = FE_INVALID | FE_DIVBYZERO | FE_OVERFLOW;
			ctx.probe(P_TRAPS);
		}
		for(size_t k = 0; k < plan.ops.size(); k++)
		{
			const Op& o = plan.ops[k];
			ctx.on_thread(o.t, [&] {
			ctx.begin_op((int) k);
			ctx.log.str(o.kind);
			if(o.kind == "seed")
			{
				uint32_t v = (uint32_t) (o.i.empty() ? 0 : o.i[0]);
				G.seed(v);
				fresh_state = true;
				if(v == 0 || v == 1 || v == 5489u || v == 0xffffffffu)
					ctx.probe(P_SEED_EDGE);
			}
			else if(o.kind == "discard")
			{
				G.discard((unsigned long long) (o.i.empty() ? 1 : o.i[0]));
				ctx.probe(P_DISCARD);
				fresh_state = false;
			}
			else if(o.kind == "plant")
			{
				// adversarial generator state: the property quantifies over ALL states, and some of them make one of the next uniform
				// deviates exactly 0 (two zero words) or the largest value below 1 (two all-ones words). A seed sweep meets such a
				// state once in 2^64 draws; here the words are planted at a plan-chosen distance ahead of the current position.
				plant_words(G, (unsigned) std::max(0ll, std::min(400ll, o.i.empty() ? 0 : o.i[0])), o.i.size() > 1 && o.i[1] ? 0xffffffffu : 0u, o.i.size() > 2 ? (int) o.i[2] : 0);
				ctx.probe(P_PLANT);
				fresh_state = false;
			}
			else if(o.kind == "abort")
			{
				// cancellation fault: a sampler call whose density/CDF throws half-way; the generator is left wherever the call got
				// to, and every later op must behave as usual from that state
				Op inner;
				Spec s;
				if(Op::parse(o.s, inner) && op_spec(inner, s) && s.kind >= 3 && s.kind <= 7)
				{
					Counters c;
					c.abort_at = (uint64_t) std::max(1ll, o.i.empty() ? 1 : o.i[0]);
					ctx.probe(P_ABORTED);
					try
					{
						std::vector<double> out = draw(G, s, &c);
						ctx.log.u64(out.size());   // the call finished before the fault point was reached
					}
					catch(AbortCall&)
					{
						ctx.log.u64(0xAB07ull);
					}
					fresh_state = false;
				}
			}
			else if(o.kind == "conc")
				exec_conc(o);
			else if(o.kind == "law")
				exec_law(o);
			else if(o.kind == "chain")
				exec_chain(o);
			else
			{
				Spec s;
				if(!op_spec(o, s))
					return;
				if(s.kind == 8)
				{
					std::mt19937 before = G;
					exec_sampler(s);
					// recompute the outputs for the equivalence check from the saved pre-state
					std::mt19937 H			= before;
					std::vector<double> out = draw(H, s);
					exec_vpoisson_equivalence(s, before, out);
				}
				else
					exec_sampler(s);
			}
			});
		}
		if(kinds_seen.size() >= 3 && nonfresh_start)
			ctx.sh->nontrivial = 1;
	}
};

// ---------------------------------------------------------------- generator
struct Gen
{
	Rng r;
	const Opts& opts;
	Gen(uint64_t seed, const Opts& o) : r(mix64(seed ^ 0x73616d70ull)), opts(o) {}

	Spec random_spec(int kind, bool for_law)
	{
		Spec s;
		s.kind = kind;
		double off = r.chance(0.4) ? 0.0 : r.range(-100, 100), w = r.chance(0.4) ? 1.0 : r.logrange(1e-3, 1e3);
		if(r.chance(0.12))
			off = (double) r.irange(-50, 50), w = (double) r.irange(1, 40);	  // whole-number limits, as users type them
		if(r.chance(0.15))
			w = r.logrange(1e3, 1e10);	 // lengths in mm, times in ns: legal, and tolerances tied to the width show up here
		if(r.chance(0.08))
			off = r.sign() * r.logrange(1e3, 1e9);
		if(w < 1e-6 * std::fabs(off))
			w = 1e-6 * std::fabs(off) * r.range(1, 10);	  // keep the domain resolvable (>= 1e9 representable abscissae)
		auto shape_params = [&](int sh, double& a, double& b) {
			a = b = 0;
			if(sh == 0)
				a = r.range(0.1, 0.9);
			else if(sh == 1)
				a = r.range(0.2, 0.8), b = r.range(0.15, 0.6);
			else if(sh == 3)
				a = r.range(-3, 3);
			else if(sh == 4)
				a = r.range(0.2, 3);
		};
		switch(kind)
		{
			case 0: s.p = {off, off + w}; break;
			case 1: s.p = {off, w}; break;
			case 2:
			{
				static const std::vector<double> L	= {0.01, 0.3, 3, 12.5, 100, 499, 500, 501, 700, 999, 1000, 1001, 1500};
				static const std::vector<double> LT = {2500, 5000};
				double lam = r.chance(0.5) ? r.pick(L) : r.logrange(1e-2, 1500);
				if(opts.tier == "thorough" && r.chance(0.1))
					lam = r.chance(0.5) ? r.pick(LT) : r.logrange(1500, 5000);
				if(!for_law && lam > 1600)
					lam = 1500;
				s.p = {lam};
				break;
			}
			case 8:
			{
				int n = (int) r.irange(0, 5);
				for(int k = 0; k < n; k++)
					s.p.push_back((k > 0 && r.chance(0.2)) ? s.p.back() : r.chance(0.2) ? 600.0 : r.logrange(0.01, 50));	 // repeats allowed; n = 0: empty list
				break;
			}
			case 3:
			{
				s.family = (int) r.pick(std::vector<long long>{0, 1, 2, 3, 4, 5, 6});
				double a, b;
				shape_params(s.family, a, b);
				if(r.chance(0.3))
					w = r.logrange(1e3, 1e10);
				else if(r.chance(0.15))
				{
					// a narrow window far from the origin, e.g. [1e9, 1e9+1]: still ~1e7 representable abscissae inside
					off = r.sign() * r.logrange(1e6, 1e9);
					w	= std::fabs(off) * r.logrange(1e-9, 1e-7);
					// give the CDF structure well inside the window (a one-step root finder is exact on straight CDFs)
					s.family = 1;
					a		 = r.range(0.2, 0.8);
					b		 = r.logrange(0.005, 0.05);
				}
				s.p = {a, b, off, off + w};
				break;
			}
			case 4:
			{
				s.family = (int) r.pick(std::vector<long long>{0, 1, 2, 5, 6});
				double a, b;
				shape_params(s.family, a, b);
				double factor = r.pick(std::vector<double>{1.0, 1.0, 1.0001, 1.5, 2.0, 5.0, 20.0});
				if(!for_law && r.chance(0.02))
					factor = 60.0;
				if(!for_law && kind == 4 && r.chance(0.10))
				{
					// a narrow peak under a correct envelope: efficiency 0.3-0.5 %, so that one call in twenty passes its 1000th
					// rejection (the library's inefficiency-warning branch) and none its 10000th (where the library gives up)
					s.family = 1;
					a		 = r.range(0.2, 0.8);
					b		 = r.logrange(0.0015, 0.004);
					factor	 = std::max(1.0, 2.5066 * b / r.range(0.003, 0.005));
				}
				s.p = {a, b, off, off + w, factor};
				if(r.chance(0.3))
					s.p.push_back(std::pow(2.0, (double) r.irange(-100, 100)));	  // power of two: the scaled density compares exactly like the unscaled one
				break;
			}
			case 5:
			{
				s.family = (int) r.below(2);
				double a = r.range(0.2, 0.8), b = r.range(0.2, 0.6);
				double off2 = r.chance(0.4) ? 0.0 : r.range(-100, 100), w2 = r.chance(0.4) ? 1.0 : r.logrange(1e-3, 1e3);
				double factor = r.pick(std::vector<double>{1.0, 1.0001, 1.5, 2.0, 5.0});
				if(!for_law && r.chance(0.15))
				{
					// as for kind 4: narrow peak (in x), correct envelope, efficiency 0.3-0.5 %
					s.family = 1;
					b		 = r.logrange(0.003, 0.008);
					factor	 = std::max(1.0, 1.2533 * b / r.range(0.003, 0.005));
				}
				s.p = {a, b, off, off + w, off2, off2 + w2, factor};
				break;
			}
			case 6:
			{
				s.family  = (int) r.below(5);
				s.bounded = s.family >= 2;
				if(!for_law && r.chance(0.15))
				{
					// box density 8-12 proposal widths away from the origin, unbounded domain (never pooled: convergence is not the point)
					s.family  = 5;
					s.bounded = 0;
					double sp = r.logrange(1e-2, 1e2);
					s.p		  = {sp, r.sign() * sp * r.range(8, 12), sp * r.range(1.0, 2.0), 0.0, 1.0};
					break;
				}
				double m, wd, d0 = 0, d1 = 1, sp;
				if(!s.bounded)
				{
					wd = r.logrange(1e-2, 1e2);
					m  = r.range(-1.5, 1.5) * wd;
					sp = wd * r.range(0.7, 1.5);
				}
				else
				{
					d0 = off, d1 = off + w;
					m  = s.family == 2 ? r.range(0.2, 0.8) : r.range(0.15, 0.85);
					wd = s.family == 2 ? r.range(0.25, 0.6) : 0.0;
					sp = w * r.range(0.25, 0.7);
				}
				s.p = {sp, m, wd, d0, d1};
				break;
			}
			case 7:
			{
				s.family  = (int) r.below(3);
				s.bounded = s.family == 1;
				if(!s.bounded)
				{
					double wx = r.logrange(1e-2, 1e2), wy = r.logrange(1e-2, 1e2);
					s.p = {wx * r.range(0.7, 1.4), wy * r.range(0.7, 1.4), r.range(-1.5, 1.5) * wx, wx, r.range(-1.5, 1.5) * wy, wy};
					if(s.family == 2)
						s.p.push_back(r.sign() * r.range(0.2, 0.7));   // correlation of the target
				}
				else
				{
					double off2 = r.chance(0.4) ? 0.0 : r.range(-100, 100), w2 = r.chance(0.4) ? 1.0 : r.logrange(1e-3, 1e3);
					s.p = {w * r.range(0.25, 0.6), w2 * r.range(0.25, 0.6), 0, 1, 0, 1, off, off + w, off2, off2 + w2};
				}
				break;
			}
		}
		if(kind == 6 || kind == 7)
		{
			static const std::vector<long long> S = {0, 1, 2, 3, 7, 50, 200}, T = {1, 2, 3, 10, 200}, B = {0, 1, 5, 200};
			s.sample = (unsigned) r.pick(S);
			s.thin	 = (unsigned) r.pick(T);
			s.burn	 = (unsigned) r.pick(B);
			if(r.chance(0.35))
			{
				// any triple in 0..200, not only the grid
				s.sample = (unsigned) r.irange(0, 60);
				s.thin	 = (unsigned) r.irange(1, r.chance(0.8) ? 12 : 200);
				s.burn	 = (unsigned) r.irange(0, r.chance(0.8) ? 30 : 200);
			}
			if((uint64_t) s.sample * s.thin > 3000)
				s.thin = 3;
		}
		return s;
	}

	Plan history_plan()
	{
		Plan p;
		double conc_frac = atof(opts.get("conc_frac", "0.02").c_str());
		double plant_frac = atof(opts.get("plant_frac", "0.04").c_str());
		bool thorough = opts.tier == "thorough";
		int ncl		  = (int) r.irange(1, 4);
		std::vector<Spec> bound;
		for(int c = 0; c < ncl; c++)
			bound.push_back(random_spec((int) r.pick(std::vector<long long>{0, 1, 2, 2, 3, 4, 4, 5, 6, 6, 7, 8}), false));
		if(r.chance(0.06))
		{
			// argument churn: 140-300 distinct parameter sets of one cheap sampler, then repeats of earlier ones, each repeat also
			// compared with a pristine process - anything memoised per argument with a bounded table gets filled and flushed
			int kind = (int) r.pick(std::vector<long long>{2, 2, 2, 0, 1});
			int nd	 = (int) r.irange(140, 300);
			std::vector<Spec> used;
			static const std::vector<long long> SEEDS0 = {0, 1, 5489, 4294967295ll};
			p.ops.push_back(Op("seed", {r.chance(0.5) ? r.pick(SEEDS0) : (long long) (r.next() & 0xffffffffu)}));
			for(int k = 0; k < nd; k++)
			{
				Spec s = random_spec(kind, false);
				if(kind == 2)
					s.p = {r.chance(0.8) ? r.logrange(0.01, 499) : r.logrange(500, 1500)};
				used.push_back(s);
				p.ops.push_back(spec_op(s));
			}
			for(int k = 0; k < 40; k++)
			{
				Spec s	   = used[r.below(used.size())];
				s.pristine = 1;
				p.ops.push_back(spec_op(s));
				if(r.chance(0.5))
					p.ops.push_back(spec_op(s));
			}
			return p;
		}
		bool slow_client = r.chance(0.08);
		if(slow_client)
		{
			// a client whose envelope is 200x (1D) / 100x (2D) too generous: about one call in 150 runs past 1000 tries into the
			// inefficiency-warning branch (the 10000-try abort has probability < 1e-21 per call)
			Spec s = random_spec(r.chance(0.7) ? 4 : 5, false);
			if(s.kind == 4)
			{
				s.family = 5;
				s.p[4]	 = 200.0;
			}
			else
			{
				s.family = 0;
				s.p[6]	 = 100.0;
			}
			bound[0] = s;
		}
		static const std::vector<long long> SEEDS = {0, 1, 5489, 4294967295ll};
		p.ops.push_back(Op("seed", {r.chance(0.5) ? r.pick(SEEDS) : (long long) (r.next() & 0xffffffffu)}));
		long nops = r.chance(0.3) ? r.irange(3, 20) : r.irange(20, thorough ? 300 : 120);
		if(slow_client)
			nops = r.irange(150, 300);
		int cur = 0;
		long burst = 0;
		for(long k = 0; k < nops; k++)
		{
			if(burst <= 0)
			{
				cur	  = (int) r.below(ncl);
				burst = 1 + (long) (-std::log(1.0 - r.u01()) * 2.5);
			}
			burst--;
			double u = r.u01();
			if(u < 0.04)
				p.ops.push_back(Op("seed", {r.chance(0.5) ? r.pick(SEEDS) : (long long) (r.next() & 0xffffffffu)}));
			else if(u < 0.09)
				p.ops.push_back(Op("discard", {(long long) std::pow(10.0, (double) r.irange(0, thorough ? 6 : 5)) + (long long) r.below(7)}));
			else
			{
				Spec s = bound[cur];
				if(slow_client && r.chance(0.5))
					s = bound[0];
				else if(r.chance(0.3))
					s = random_spec(s.kind, false);	  // same family, new parameters
				if((s.kind == 6 || s.kind == 7) && r.chance(0.7))
				{
					Spec t	 = random_spec(s.kind, false);
					s.sample = t.sample, s.thin = t.thin, s.burn = t.burn;
				}
				s.pristine = r.chance(0.05) ? 1 : 0;
				if(r.chance(plant_frac))
					p.ops.push_back(Op("plant", {2 * (long long) r.irange(0, (s.kind == 6 || s.kind == 7) ? 60 : (s.kind == 2 || s.kind == 8) ? 30 : 6), (long long) r.below(2), (long long) r.below(3)}));
				if(r.chance(conc_frac))
				{
					// two callers at once, each with its own generator (see exec_conc)
					Spec a = s, b = r.chance(0.6) ? random_spec(s.kind, false) : bound[r.below(ncl)];
					a.pristine = b.pristine = 0;
					if(a.kind == 6 || a.kind == 7)
						a.sample = std::min(a.sample, 20u), a.burn = std::min(a.burn, 30u);
					if(b.kind == 6 || b.kind == 7)
						b.sample = std::min(b.sample, 20u), b.burn = std::min(b.burn, 30u);
					Op c("conc");
					int mode = (int) r.below(3);
					c.i = {mode, mode == 0 ? (long long) r.irange(1, 4) : mode == 1 ? (long long) r.pick(std::vector<long long>{8, 30, 200, 2000}) : (long long) r.pick(std::vector<long long>{2, 5, 20}), (long long) (r.next() & 0xffffffffu), (long long) (r.next() & 0xffffffffu), (long long) (r.next() & 0xffffffffu), (long long) r.pick(std::vector<long long>{1, 3, 10, 30})};
					c.s = spec_op(a).text() + " || " + spec_op(b).text();
					p.ops.push_back(c);
				}
				if(s.kind >= 3 && s.kind <= 7 && r.chance(0.04))
				{
					Op ab("abort");
					ab.i = {(long long) r.irange(1, s.kind >= 6 ? 40 : 6)};
					ab.s = spec_op(s).text();
					p.ops.push_back(ab);
				}
				p.ops.push_back(spec_op(s));
			}
		}
		return p;
	}

	Plan law_plan()
	{
		Plan p;
		bool thorough = opts.tier == "thorough";
		int kind	  = (int) r.pick(std::vector<long long>{0, 1, 2, 2, 2, 3, 3, 3, 4, 4, 5, 6, 6, 7});
		Spec s		  = random_spec(kind, true);
		size_t n	  = thorough ? 1000000 : 100000;
		if(kind == 6 || kind == 7)
		{
			s.sample = 1;
			s.thin	 = 1;
			s.burn	 = 200;
			n		 = thorough ? 100000 : 20000;
		}
		if(kind == 2)
			n = (size_t) std::max(20000.0, std::min((double) n, (thorough ? 3e8 : 3e7) / std::max(1.0, s.p[0])));
		if(kind == 1 || kind == 3)
			n = std::min<size_t>(n, thorough ? 400000 : 100000);
		if(kind == 4 || kind == 5)
			n = (size_t) (n / std::max(1.0, (kind == 4 ? s.p[4] : s.p[6]) / 2));
		static const std::vector<long long> SEEDS = {0, 1, 5489, 4294967295ll};
		p.ops.push_back(Op("seed", {r.chance(0.3) ? r.pick(SEEDS) : (long long) (r.next() & 0xffffffffu)}));
		if(r.chance(0.5))
			p.ops.push_back(Op("discard", {(long long) r.irange(1, 100000)}));
		// a few ordinary calls of other samplers first, so that the pool starts from a used state
		for(int k = 0; k < (int) r.irange(0, 4); k++)
			p.ops.push_back(spec_op(random_spec((int) r.pick(std::vector<long long>{0, 1, 2, 3, 4}), false)));
		Op law("law");
		law.i = {(long long) n, (long long) r.irange(1, 50), r.chance(0.85) ? (long long) r.below(3) : -1ll};
		law.s = spec_op(s).text();
		p.ops.push_back(law);
		if(kind == 6 && r.chance(0.7))
		{
			Spec c	 = s;
			c.sample = (unsigned) r.pick(std::vector<long long>{500, 2000});
			c.thin	 = (unsigned) r.pick(std::vector<long long>{5, 10, 20});
			c.burn	 = 200;
			Op ch("chain");
			ch.s = spec_op(c).text();
			p.ops.push_back(ch);
		}
		return p;
	}

	Plan generate()
	{
		double law_frac = opts.get("law_frac", "") == "" ? 0.2 : atof(opts.get("law_frac").c_str());
		return r.chance(law_frac) ? law_plan() : history_plan();
	}
};

struct SamplersEngine : Engine
{
	const char* name() const override { return "samplers"; }
	std::vector<std::string> probe_names() const override { return std::vector<std::string>(PROBE_NAMES, PROBE_NAMES + P_NPROBES); }
	std::vector<std::string> metric_names() const override { return {"worst_KS_distance_over_DKW_bound", "worst_moment_z_over_allowed"}; }
	int default_runs(const Opts& o) const override { return o.tier == "thorough" ? 4000 : 400; }
	Plan generate(uint64_t seed, const Opts& o) override { return Gen(seed, o).generate(); }
	void execute(const Plan& p, Ctx& ctx) override { Exec(ctx, p).run(); }
	std::vector<Plan> simplify(const Plan& p) const override
	{
		std::vector<Plan> out;
		for(size_t k = 0; k < p.ops.size(); k++)
		{
			if(p.ops[k].kind == "law" && p.ops[k].i.size() >= 3 && p.ops[k].i[0] > 20000)
			{
				Plan q		  = p;
				q.ops[k].i[0] = std::max(20000ll, p.ops[k].i[0] / 4);
				out.push_back(q);
			}
			if(p.ops[k].kind == "law" && p.ops[k].i.size() >= 3 && p.ops[k].i[2] >= 0)
			{
				Plan q		  = p;
				q.ops[k].i[2] = -1;
				out.push_back(q);
			}
			if(p.ops[k].kind == "discard" && !p.ops[k].i.empty() && p.ops[k].i[0] > 1)
			{
				Plan q		  = p;
				q.ops[k].i[0] = 1;
				out.push_back(q);
			}
			if(p.ops[k].kind == "seed" && !p.ops[k].i.empty() && p.ops[k].i[0] != 1)
			{
				Plan q		  = p;
				q.ops[k].i[0] = 1;
				out.push_back(q);
			}
		}
		return out;
	}
};
}	// namespace

sim::Engine* make_samplers_engine() { return new SamplersEngine(); }
