// Deterministic-simulation core for the libphysica checks.
// One integer (the run seed) decides a whole run; a run is an explicit Plan (list of ops with
// attached faults) executed in a forked child of a pristine process image; the child reports
// through a shared-memory record; the parent classifies the outcome, re-executes for the
// determinism gate, shrinks (ddmin over ops + engine-specific simplifications) and writes the
// replay artefact. No code in here reads a clock or any entropy source.
#pragma once
#include <cerrno>
#include <cfenv>
#include <cstdint>
#include <cstdio>
#include <cstdlib>
#include <cstring>
#include <cmath>
#include <functional>
#include <map>
#include <string>
#include <vector>

namespace sim
{

// ---------------------------------------------------------------- hashing / rng
inline uint64_t mix64(uint64_t x)
{
	x += 0x9E3779B97F4A7C15ull;
	x = (x ^ (x >> 30)) * 0xBF58476D1CE4E5B9ull;
	x = (x ^ (x >> 27)) * 0x94D049BB133111EBull;
	return x ^ (x >> 31);
}
inline uint64_t fnv1a(const void* p, size_t n, uint64_t h = 0xcbf29ce484222325ull)
{
	const unsigned char* b = (const unsigned char*) p;
	for(size_t i = 0; i < n; i++)
	{
		h ^= b[i];
		h *= 0x100000001b3ull;
	}
	return h;
}
inline uint64_t fnv1a(const std::string& s, uint64_t h = 0xcbf29ce484222325ull)
{
	return fnv1a(s.data(), s.size(), h);
}

struct Rng	 // xoshiro256**
{
	uint64_t s[4];
	explicit Rng(uint64_t seed = 0)
	{
		uint64_t z = seed;
		for(int i = 0; i < 4; i++)
		{
			z	 = mix64(z + i);
			s[i] = z;
		}
		if(!(s[0] | s[1] | s[2] | s[3]))
			s[0] = 1;
	}
	static uint64_t rotl(uint64_t x, int k) { return (x << k) | (x >> (64 - k)); }
	uint64_t next()
	{
		uint64_t r = rotl(s[1] * 5, 7) * 9, t = s[1] << 17;
		s[2] ^= s[0];
		s[3] ^= s[1];
		s[1] ^= s[2];
		s[0] ^= s[3];
		s[2] ^= t;
		s[3] = rotl(s[3], 45);
		return r;
	}
	uint64_t below(uint64_t n) { return n ? next() % n : 0; }	// modulo bias irrelevant here
	int64_t irange(int64_t lo, int64_t hi) { return lo + (int64_t) below((uint64_t)(hi - lo + 1)); }
	double u01() { return (next() >> 11) * (1.0 / 9007199254740992.0); }
	double range(double a, double b) { return a + (b - a) * u01(); }
	double logrange(double a, double b) { return std::exp(range(std::log(a), std::log(b))); }
	bool chance(double p) { return u01() < p; }
	template <class T>
	const T& pick(const std::vector<T>& v) { return v[below(v.size())]; }
	double sign() { return chance(0.5) ? 1.0 : -1.0; }
};

// ---------------------------------------------------------------- plan
struct Op
{
	std::string kind;
	std::vector<long long> i;
	std::vector<double> d;
	std::string s;
	int t = 0;	 // caller thread that issues this op (0 = the process's main thread); assigned by the core, see assign_threads()
	Op() {}
	explicit Op(const std::string& k) : kind(k) {}
	Op(const std::string& k, std::vector<long long> ii, std::vector<double> dd = {}, std::string ss = "") : kind(k), i(ii), d(dd), s(ss) {}
	std::string text() const;
	static bool parse(const std::string& line, Op& out);
};

struct Plan
{
	std::vector<Op> ops;
	std::string text() const;
	static Plan parse(const std::string& text);
	uint64_t hash() const { return fnv1a(text()); }
};

// ---------------------------------------------------------------- event log
struct Log
{
	uint64_t h = 0xcbf29ce484222325ull;
	uint64_t n = 0;
	void raw(const void* p, size_t k)
	{
		h = fnv1a(p, k, h);
		n++;
	}
	void u64(uint64_t v) { raw(&v, 8); }
	void i64(int64_t v) { raw(&v, 8); }
	void f64(double v)
	{
		uint64_t b;
		memcpy(&b, &v, 8);
		raw(&b, 8);
	}
	void str(const std::string& s) { raw(s.data(), s.size()); }
};

// ---------------------------------------------------------------- shared result record (child -> parent)
static const int MAX_PROBES = 96;
static const int MAX_STATES = 1 << 16;
struct Shared
{
	volatile int32_t cur_op;
	volatile int32_t done;
	uint64_t hash;
	uint64_t nevents;
	uint64_t nops;
	int32_t violated;
	int32_t viol_op;
	char vclass[128];
	char detail[2048];
	int32_t nontrivial;
	uint64_t ambient_errno;	  // ops started with a non-zero errno left behind (generic fault)
	uint64_t ambient_fpflags;  // ops started with sticky IEEE exception flags raised (generic fault)
	uint64_t dirty_stack;	  // ops started with the stack below the caller filled with a pattern (generic fault)
	uint64_t heap_perturbed;	  // runs with glibc's M_PERTURB: fresh and freed heap blocks filled with a plan-chosen byte
	uint64_t thread_ops;		  // ops issued from a caller thread other than the main thread
	uint64_t thread_switches;  // op boundaries at which the issuing thread changed
	uint64_t early_calls;	  // library calls made before main() whose results this run checked (static-initialisation-order fault)
	uint64_t late_calls;	  // library calls made during static destruction whose results this run checked
	uint64_t probes[MAX_PROBES];
	double metrics[32];
	uint8_t states[MAX_STATES / 8];
};

struct Violation
{
	bool any = false;
	std::string cls;
	int op = -1;
	std::string detail;
};

struct RunResult
{
	Violation v;
	uint64_t hash = 0, nevents = 0, nops = 0;
	bool nontrivial = false;
	std::string outcome;   // "ok", "violation", "exit:<code>", "signal:<n>", "sanitizer", "timeout"
	std::string tail;	   // tail of the child's stdout/stderr when it did not finish
};

struct Opts
{
	std::string prop;	// property id whose oracles are active
	std::string tier = "quick";
	std::string config;	  // build configuration label (informational)
	int timeout_s	  = 120;
	std::map<std::string, std::string> kv;	 // engine-specific switches (e.g. faults=A|B|C)
	std::string get(const std::string& k, const std::string& dflt = "") const
	{
		auto it = kv.find(k);
		return it == kv.end() ? dflt : it->second;
	}
};

struct ViolationEx
{
	std::string cls, detail;
};

struct Ctx
{
	Shared* sh;
	Log log;
	const Opts* opts;
	int cur = -1;
	uint64_t salt = 0;	 // per-plan value from which the ambient faults of each op are derived
	void begin_op(int k)
	{
		cur		   = k;
		sh->cur_op = k;
		sh->nops++;
		// Ambient-state fault: errno is whatever earlier, unrelated calls left behind. Code that tests errno without
		// clearing it first (or that assumes it is zero) misbehaves only after such leftovers; correct code never notices.
		static const int LEFTOVER[8] = {0, 0, ERANGE, ERANGE, EDOM, EINTR, ENOENT, EAGAIN};
		int e = LEFTOVER[mix64(salt + (uint64_t) k * 0x9E3779B1ull) & 7];
		errno = e;
		if(e)
			sh->ambient_errno++;
		// ... and so are the IEEE exception flags: they are sticky, and whatever ran before may have overflowed or divided by
		// zero. Code that tests a flag it never cleared misbehaves only then.
		static const int FLAGS[8] = {0, 0, FE_OVERFLOW, FE_INVALID, FE_DIVBYZERO, FE_UNDERFLOW | FE_INEXACT, FE_OVERFLOW | FE_INEXACT, FE_ALL_EXCEPT};
		int fl = FLAGS[(mix64(salt ^ 0xF1A65ull) + (uint64_t) k * 0x51ED27ull) >> 7 & 7];
		std::feclearexcept(FE_ALL_EXCEPT);
		if(fl)
		{
			std::feraiseexcept(fl);
			sh->ambient_fpflags++;
		}
		// ... and so is the content of the stack below the caller's frame: whatever ran before left its bytes there. Code that
		// reads a local it never initialised gets zeros in a short test program and something else in a long-running one.
		static const int PATTERN[4] = {-1, 0x00, 0xFF, 0x7F};
		int pat						= PATTERN[mix64(salt ^ 0x57ACCull ^ ((uint64_t) k << 20)) >> 11 & 3];
		if(pat >= 0)
		{
			dirty_stack(pat);
			sh->dirty_stack++;
		}
	}
	// Caller-thread dimension: the op body runs on the plan-chosen caller thread while every other thread is parked; exactly one
	// thread runs at any time and the hand-over points are the op boundaries, so a run is still a pure function of the plan.
	// Exceptions (violations) are carried back to the coordinating thread.
	void on_thread(int t, const std::function<void()>& body);
	static void dirty_stack(int byte);	 // sim.cpp: fills 48 kB below the current frame with `byte`
	void probe(int id, uint64_t n = 1)
	{
		if(id >= 0 && id < MAX_PROBES)
			sh->probes[id] += n;
	}
	void metric_max(int id, double v)
	{
		if(id >= 0 && id < 32 && v > sh->metrics[id])
			sh->metrics[id] = v;
	}
	void state(uint32_t id)
	{
		id %= MAX_STATES;
		sh->states[id >> 3] |= (uint8_t)(1u << (id & 7));
	}
	[[noreturn]] void violate(const std::string& cls, const std::string& detail) { throw ViolationEx{cls, detail}; }
	bool prop_is(const char* p) const { return opts->prop == p; }
};

struct Engine
{
	virtual ~Engine() {}
	virtual const char* name() const						   = 0;
	virtual std::vector<std::string> probe_names() const	   = 0;
	virtual Plan generate(uint64_t run_seed, const Opts& opts) = 0;
	virtual void execute(const Plan& plan, Ctx& ctx)		   = 0;	  // runs in the forked child
	virtual bool removable(const Op& op) const { return true; }		  // may ddmin drop this op?
	virtual std::vector<Plan> simplify(const Plan& plan) const { return {}; }	// structural shrink candidates
	virtual std::string state_name(uint32_t id) const { return std::to_string(id); }
	virtual int default_runs(const Opts& opts) const = 0;
	virtual std::vector<std::string> metric_names() const { return {}; }
};

// formatting helpers
std::string hexf(double v);
std::string fmt(const char* f, ...);
inline uint64_t bits(double v)
{
	uint64_t b;
	memcpy(&b, &v, 8);
	return b;
}
inline bool same_bits(double a, double b) { return bits(a) == bits(b) || (std::isnan(a) && std::isnan(b)); }
// distance in units in the last place of `scale`
inline double ulps(double a, double b, double scale)
{
	if(same_bits(a, b))
		return 0.0;
	if(std::isnan(a) || std::isnan(b) || std::isinf(a) || std::isinf(b))
		return INFINITY;
	double u = std::ldexp(1.0, std::ilogb(scale > 0 && std::isfinite(scale) ? scale : 5e-324) - 52);
	if(u == 0.0)
		u = 5e-324;
	return std::fabs(a - b) / u;
}

// static-initialisation-order fault (early.cpp): library calls made from a translation unit initialised before the library's
static const int EARLY_SECTIONS = 5, EARLY_SLOTS = 32;
struct EarlyRecord
{
	int ran[EARLY_SECTIONS], status[EARLY_SECTIONS], n[EARLY_SECTIONS];
	double v[EARLY_SECTIONS][EARLY_SLOTS];
	// the same calls repeated during static destruction of that child (after exit() has destroyed what the first round built)
	int late_n[EARLY_SECTIONS];
	double late_v[EARLY_SECTIONS][EARLY_SLOTS];
};
extern EarlyRecord g_early;
void early_prepare();		   // worker start-up, after main: the same calls in the usual order (pristine child)
void early_check(Ctx& ctx);	   // start of every run: compare; throws ViolationEx

// entropy seam (defined in seams.cpp): value returned by the next std::random_device draw
void entropy_set_call_seed(uint64_t seed);
uint64_t entropy_draws_total();
uint64_t entropy_other_sources();   // reads of clock/rand/... by linked objects (never legitimate for libphysica)
void entropy_attach_log(Log* log);

// Pristine-process oracle: start() must be called before the engine's first library call in this process. It forks a
// server that never calls the library itself; every ask() is answered by `handler` running in a worker forked from that
// server, i.e. in a process image whose process-global state (function statics, memo tables, errno, ...) is untouched.
struct RefServer
{
	int req = -1, resp = -1;
	void start(std::function<std::string(const std::string&)> handler);
	// returns false if the server is not running; worker_ok = false if the worker did not return (exit/crash in the library)
	bool ask(const std::string& request, std::string& response, bool& worker_ok);
	bool running() const { return req >= 0; }
};

int sim_main(int argc, char** argv, std::vector<Engine*> engines);

}	// namespace sim
