#include "sim.hpp"

#include <cstdarg>
#include <cerrno>
#include <fcntl.h>
#include <signal.h>
#include <sstream>
#include <fstream>
#include <iostream>
#include <set>
#include <malloc.h>
#include <exception>
#include <condition_variable>
#include <mutex>
#include <thread>
#include <sys/mman.h>
#include <sys/personality.h>
#include <sys/syscall.h>
#include <sys/wait.h>
#include <time.h>
#include <unistd.h>

namespace sim
{

std::string hexf(double v)
{
	char buf[64];
	snprintf(buf, sizeof buf, "%a", v);
	return buf;
}
std::string fmt(const char* f, ...)
{
	char buf[4096];
	va_list ap;
	va_start(ap, f);
	vsnprintf(buf, sizeof buf, f, ap);
	va_end(ap);
	return buf;
}

// ---------------------------------------------------------------- Op / Plan text
std::string Op::text() const
{
	std::string t = kind;
	if(!i.empty())
	{
		t += " i=";
		for(size_t k = 0; k < i.size(); k++)
			t += (k ? "," : "") + std::to_string(i[k]);
	}
	if(!d.empty())
	{
		t += " d=";
		for(size_t k = 0; k < d.size(); k++)
			t += (k ? "," : "") + hexf(d[k]);
	}
	if(this->t)
		t += " t=" + std::to_string(this->t);
	if(!s.empty())
		t += " s=" + s;
	return t;
}

bool Op::parse(const std::string& line, Op& out)
{
	out			= Op();
	size_t pos	= line.find(' ');
	out.kind	= line.substr(0, pos);
	if(out.kind.empty())
		return false;
	while(pos != std::string::npos)
	{
		while(pos < line.size() && line[pos] == ' ')
			pos++;
		if(pos >= line.size())
			break;
		if(line.compare(pos, 2, "s=") == 0)
		{
			out.s = line.substr(pos + 2);
			break;
		}
		size_t end		= line.find(' ', pos);
		std::string tok = line.substr(pos, end == std::string::npos ? std::string::npos : end - pos);
		pos				= end;
		if(tok.size() < 2 || tok[1] != '=')
			return false;
		std::stringstream ss(tok.substr(2));
		std::string item;
		while(std::getline(ss, item, ','))
		{
			if(tok[0] == 'i')
				out.i.push_back(strtoll(item.c_str(), nullptr, 10));
			else if(tok[0] == 'd')
				out.d.push_back(strtod(item.c_str(), nullptr));
			else if(tok[0] == 't')
				out.t = (int) std::min(7l, std::max(0l, strtol(item.c_str(), nullptr, 10)));
			else
				return false;
		}
	}
	return true;
}

std::string Plan::text() const
{
	std::string t;
	for(auto& o : ops)
		t += o.text() + "\n";
	return t;
}

Plan Plan::parse(const std::string& text)
{
	Plan p;
	std::stringstream ss(text);
	std::string line;
	while(std::getline(ss, line))
	{
		if(line.empty() || line[0] == '#')
			continue;
		Op o;
		if(!Op::parse(line, o))
		{
			fprintf(stderr, "sim: cannot parse plan line: %s\n", line.c_str());
			exit(2);
		}
		p.ops.push_back(o);
	}
	return p;
}

// ---------------------------------------------------------------- pristine-process reference server
static bool write_all_fd(int fd, const void* p, size_t n)
{
	const char* c = (const char*) p;
	while(n)
	{
		ssize_t w = ::write(fd, c, n);
		if(w < 0 && errno == EINTR)
			continue;
		if(w <= 0)
			return false;
		c += w;
		n -= (size_t) w;
	}
	return true;
}
static bool read_all_fd(int fd, void* p, size_t n)
{
	char* c = (char*) p;
	while(n)
	{
		ssize_t r = ::read(fd, c, n);
		if(r < 0 && errno == EINTR)
			continue;
		if(r <= 0)
			return false;
		c += r;
		n -= (size_t) r;
	}
	return true;
}
static bool send_msg(int fd, const std::string& m)
{
	uint64_t n = m.size();
	return write_all_fd(fd, &n, 8) && write_all_fd(fd, m.data(), m.size());
}
static bool recv_msg(int fd, std::string& m)
{
	uint64_t n = 0;
	if(!read_all_fd(fd, &n, 8) || n > (1ull << 30))
		return false;
	m.resize((size_t) n);
	return n == 0 || read_all_fd(fd, &m[0], (size_t) n);
}

void RefServer::start(std::function<std::string(const std::string&)> handler)
{
	int rq[2], rs[2];
	if(pipe(rq) != 0 || pipe(rs) != 0)
		return;
	fflush(nullptr);
	pid_t pid = fork();
	if(pid == 0)
	{
		close(rq[1]);
		close(rs[0]);
		std::string m;
		while(recv_msg(rq[0], m))
		{
			int wp[2];
			if(pipe(wp) != 0)
				_exit(1);
			pid_t w = fork();
			if(w == 0)
			{
				close(wp[0]);
				alarm(120);
				std::string a = handler(m);
				send_msg(wp[1], a);
				_exit(0);
			}
			close(wp[1]);
			std::string a;
			bool got = recv_msg(wp[0], a);
			close(wp[0]);
			int st = 0;
			while(waitpid(w, &st, 0) < 0 && errno == EINTR) {}
			bool ok = got && WIFEXITED(st) && WEXITSTATUS(st) == 0;
			send_msg(rs[1], std::string(ok ? "1" : "0") + (ok ? a : std::string()));
		}
		_exit(0);
	}
	close(rq[0]);
	close(rs[1]);
	req	 = rq[1];
	resp = rs[0];
}

bool RefServer::ask(const std::string& request, std::string& response, bool& worker_ok)
{
	if(req < 0 || !send_msg(req, request))
		return false;
	std::string m;
	if(!recv_msg(resp, m) || m.empty())
		return false;
	worker_ok = m[0] == '1';
	response  = m.substr(1);
	return true;
}

// ---------------------------------------------------------------- json helpers
static std::string jstr(const std::string& s)
{
	std::string o = "\"";
	for(unsigned char c : s)
	{
		if(c == '"')
			o += "\\\"";
		else if(c == '\\')
			o += "\\\\";
		else if(c == '\n')
			o += "\\n";
		else if(c == '\t')
			o += "\\t";
		else if(c == '\r')
			o += "\\r";
		else if(c < 0x20 || c >= 0x7f)
			o += fmt("\\u%04x", c);
		else
			o += (char) c;
	}
	return o + "\"";
}
static std::string hex64(uint64_t v) { return fmt("%016llx", (unsigned long long) v); }

// ---------------------------------------------------------------- child execution
static Shared* g_shared = nullptr;
static int g_capfd		= -1;

static std::string read_tail(int fd, size_t maxn)
{
	off_t len = lseek(fd, 0, SEEK_END);
	if(len <= 0)
		return "";
	off_t start = len > (off_t) maxn ? len - (off_t) maxn : 0;
	std::string buf((size_t)(len - start), '\0');
	ssize_t r = pread(fd, &buf[0], buf.size(), start);
	if(r < 0)
		return "";
	buf.resize((size_t) r);
	return buf;
}

static RunResult run_child(Engine& eng, const Plan& plan, const Opts& opts, bool capture, Shared* copy_out = nullptr)
{
	memset(g_shared, 0, sizeof(Shared));
	g_shared->cur_op = -1;
	if(capture)
	{
		if(ftruncate(g_capfd, 0) != 0) {}
		lseek(g_capfd, 0, SEEK_SET);
	}
	fflush(stdout);
	fflush(stderr);
	pid_t pid = fork();
	if(pid < 0)
	{
		perror("sim: fork");
		exit(2);
	}
	if(pid == 0)
	{
		if(!getenv("SIM_SHOW_OUTPUT"))
		{
			int fd = capture ? g_capfd : open("/dev/null", O_WRONLY);
			dup2(fd, 1);
			dup2(fd, 2);
		}
		alarm((unsigned) opts.timeout_s);
		Ctx ctx;
		ctx.sh	 = g_shared;
		ctx.opts = &opts;
		ctx.salt = plan.hash();
		entropy_attach_log(&ctx.log);
		// Heap-content fault: in half of the runs every block malloc hands out, and every block given back, is filled with a
		// plan-chosen byte (glibc M_PERTURB; no effect under ASan, which poisons and fills on its own). Correct code never reads
		// memory it did not write.
		{
			uint64_t hp = mix64(ctx.salt ^ 0x4EA9ull);
			if(hp & 1)
			{
				mallopt(M_PERTURB, 1 + (int) ((hp >> 8) % 255));
				g_shared->heap_perturbed = 1;
			}
		}
		try
		{
			early_check(ctx);
			eng.execute(plan, ctx);
		}
		catch(ViolationEx& v)
		{
			g_shared->violated = 1;
			g_shared->viol_op  = ctx.cur;
			snprintf(g_shared->vclass, sizeof g_shared->vclass, "%s", v.cls.c_str());
			snprintf(g_shared->detail, sizeof g_shared->detail, "%s", v.detail.c_str());
		}
		catch(std::exception& e)
		{
			g_shared->violated = 1;
			g_shared->viol_op  = ctx.cur;
			snprintf(g_shared->vclass, sizeof g_shared->vclass, "%s:exception", opts.prop.c_str());
			snprintf(g_shared->detail, sizeof g_shared->detail, "C++ exception escaped a valid request: %s", e.what());
		}
		g_shared->hash	  = ctx.log.h;
		g_shared->nevents = ctx.log.n;
		g_shared->done	  = 1;
		_exit(0);
	}
	int status = 0;
	while(waitpid(pid, &status, 0) < 0 && errno == EINTR) {}
	RunResult r;
	r.hash		 = g_shared->hash;
	r.nevents	 = g_shared->nevents;
	r.nops		 = g_shared->nops;
	r.nontrivial = g_shared->nontrivial != 0;
	if(g_shared->done)
	{
		if(g_shared->violated)
		{
			r.v.any	   = true;
			r.v.cls	   = g_shared->vclass;
			r.v.op	   = g_shared->viol_op;
			r.v.detail = g_shared->detail;
			r.outcome  = "violation";
		}
		else
			r.outcome = "ok";
	}
	else
	{
		// The child ended inside an operation: exit() from library code, a signal, a sanitizer abort, or a timeout.
		r.v.any = true;
		r.v.op	= g_shared->cur_op;
		if(WIFSIGNALED(status) && WTERMSIG(status) == SIGALRM)
		{
			r.outcome = "timeout";
			r.v.cls	  = opts.prop + ":timeout";
		}
		else if(WIFSIGNALED(status))
		{
			r.outcome = fmt("signal:%d", WTERMSIG(status));
			r.v.cls	  = opts.prop + ":crash-signal";
		}
		else if(WIFEXITED(status) && (WEXITSTATUS(status) == 77 || WEXITSTATUS(status) == 78))
		{
			r.outcome = "sanitizer";
			r.v.cls	  = opts.prop + ":sanitizer-report";
		}
		else
		{
			r.outcome = fmt("exit:%d", WIFEXITED(status) ? WEXITSTATUS(status) : -1);
			r.v.cls	  = opts.prop + ":terminated-on-valid-request";
		}
		r.v.detail = "child ended during op " + std::to_string(r.v.op) + " (" + r.outcome + ")";
		// the event hash of an unfinished run is whatever was logged so far; not available -> use op index
		r.hash = mix64(0x7e57ull + (uint64_t) r.v.op) ^ fnv1a(r.outcome);
	}
	if(capture && r.v.any)
		r.tail = read_tail(g_capfd, 1500);
	if(copy_out)
		memcpy(copy_out, g_shared, sizeof(Shared));
	return r;
}

// ---------------------------------------------------------------- shrinking
struct Shrinker
{
	Engine& eng;
	const Opts& opts;
	std::string cls;
	int execs  = 0;
	int budget = 400;
	// Wall-clock budget of one shrink (harness side, outside any run; read through the raw system call because the clock
	// symbols of this executable are wrapped). It only bounds how far the plan is minimised - whatever plan results is
	// still gated by re-execution and by the fresh-process replay.
	double deadline = 0;
	static double now()
	{
		struct timespec ts;
		syscall(SYS_clock_gettime, CLOCK_MONOTONIC, &ts);
		return (double) ts.tv_sec + 1e-9 * (double) ts.tv_nsec;
	}
	bool fails(const Plan& p)
	{
		if(deadline == 0)
			deadline = now() + (opts.tier == "thorough" ? 300.0 : 90.0);
		if(now() > deadline)
		{
			execs = budget;
			return false;
		}
		execs++;
		// shrink candidates get a short leash: a candidate that hangs is simply not accepted
		Opts quick_opts		 = opts;
		quick_opts.timeout_s = std::min(opts.timeout_s, opts.tier == "thorough" ? 60 : 20);
		RunResult r = run_child(eng, p, quick_opts, false);
		return r.v.any && r.v.cls == cls;
	}
	Plan ddmin(Plan p)
	{
		size_t n = 2;
		while(execs < budget)
		{
			std::vector<size_t> rem;
			for(size_t k = 0; k < p.ops.size(); k++)
				if(eng.removable(p.ops[k]))
					rem.push_back(k);
			if(rem.empty())
				break;
			if(n > rem.size())
				n = rem.size();
			size_t chunk = (rem.size() + n - 1) / n;
			bool reduced = false;
			for(size_t c = 0; c * chunk < rem.size() && execs < budget; c++)
			{
				std::set<size_t> drop(rem.begin() + c * chunk, rem.begin() + std::min(rem.size(), (c + 1) * chunk));
				Plan q;
				for(size_t k = 0; k < p.ops.size(); k++)
					if(!drop.count(k))
						q.ops.push_back(p.ops[k]);
				if(fails(q))
				{
					p		= q;
					n		= std::max<size_t>(n - 1, 2);
					reduced = true;
					break;
				}
			}
			if(!reduced)
			{
				if(chunk <= 1)
					break;
				n = std::min(rem.size(), n * 2);
			}
		}
		return p;
	}
	Plan structural(Plan p)
	{
		bool progress = true;
		while(progress && execs < budget)
		{
			progress = false;
			std::vector<Plan> cands;
			{
				// generic candidate: everything issued from the main thread (if the failure survives, threads play no part)
				Plan q	 = p;
				bool any = false;
				for(auto& o : q.ops)
					if(o.t)
					{
						o.t = 0;
						any = true;
					}
				if(any)
					cands.push_back(q);
			}
			for(auto& q : eng.simplify(p))
			{
				// engines rebuild ops from their own specs: carry the caller thread over when the op list is unchanged in length
				if(q.ops.size() == p.ops.size())
					for(size_t k = 0; k < q.ops.size(); k++)
						if(!q.ops[k].t)
							q.ops[k].t = p.ops[k].t;
				cands.push_back(q);
			}
			for(auto& q : cands)
			{
				if(execs >= budget)
					break;
				if(q.text() != p.text() && fails(q))
				{
					p		 = q;
					progress = true;
					break;
				}
			}
		}
		return p;
	}
	Plan shrink(Plan p)
	{
		// drop everything after the failing op first (cheap, usually succeeds)
		p = ddmin(p);
		p = structural(p);
		p = ddmin(p);
		return p;
	}
};

// ---------------------------------------------------------------- main
static uint64_t prop_stream(uint64_t verif_seed, const std::string& prop) { return mix64(verif_seed ^ fnv1a(prop)); }
static uint64_t run_seed(uint64_t stream, uint64_t i) { return mix64(stream + i); }

static void usage()
{
	fprintf(stderr, "usage: simcheck --engine E --prop P [--tier quick|thorough] [--seed N] [--nruns N] [--worker k --nworkers W] [--out DIR] [--kv a=b ...]\n"
					"       simcheck --engine E --prop P --replay-plan FILE [--kv a=b ...]\n"
					"       simcheck --engine E --prop P --print-plan RUNINDEX [--seed N]\n");
	exit(2);
}

static void maybe_disable_aslr(char** argv)
{
	int cur = personality(0xffffffff);
	if(cur == -1 || (cur & ADDR_NO_RANDOMIZE) || getenv("SIM_NO_REEXEC"))
		return;
	if(personality(cur | ADDR_NO_RANDOMIZE) == -1)
		return;
	setenv("SIM_NO_REEXEC", "1", 1);
	execv("/proc/self/exe", argv);
	// exec failed: carry on with ASLR
}

// ---------------------------------------------------------------- caller threads
namespace
{
struct CallerThread
{
	std::thread th;
	std::mutex m;
	std::condition_variable cv;
	const std::function<void()>* job = nullptr;
	bool done						  = false;
	std::exception_ptr err;
	void loop()
	{
		std::unique_lock<std::mutex> lk(m);
		for(;;)
		{
			cv.wait(lk, [this] { return job != nullptr; });
			try
			{
				(*job)();
			}
			catch(...)
			{
				err = std::current_exception();
			}
			job	 = nullptr;
			done = true;
			cv.notify_all();
		}
	}
};
CallerThread* g_callers[8];
int g_last_thread = 0;
}	// namespace

void Ctx::on_thread(int t, const std::function<void()>& body)
{
	if(t != g_last_thread)
		sh->thread_switches++;
	g_last_thread = t;
	if(t <= 0 || t >= 8)
	{
		body();
		return;
	}
	sh->thread_ops++;
	CallerThread*& c = g_callers[t];
	if(!c)
	{
		c	  = new CallerThread;
		c->th = std::thread([c] { c->loop(); });
		c->th.detach();
	}
	std::unique_lock<std::mutex> lk(c->m);
	c->done = false;
	c->err	= nullptr;
	c->job	= &body;
	c->cv.notify_all();
	c->cv.wait(lk, [c] { return c->done; });
	if(c->err)
		std::rethrow_exception(c->err);
}

// Which caller thread issues which op: decided per run from the run seed, stored in the plan (Op::t), so that replay and
// shrinking see it. Most runs stay on the main thread.
void assign_threads(Plan& p, uint64_t run_seed)
{
	Rng r(mix64(run_seed ^ 0x7412EAD5ull));
	if(!r.chance(0.3) || p.ops.size() < 2)
		return;
	int nthreads = (int) r.irange(2, 4);   // including the main thread
	double sw	 = r.chance(0.5) ? 0.5 : 0.08;
	int cur		 = (int) r.below((uint64_t) nthreads);
	for(auto& o : p.ops)
	{
		if(r.chance(sw))
			cur = (int) r.below((uint64_t) nthreads);
		o.t = cur;
	}
}

__attribute__((noinline)) void Ctx::dirty_stack(int byte)
{
	volatile unsigned char buf[48 * 1024];
	for(size_t i = 0; i < sizeof buf; i++)
		buf[i] = (unsigned char) byte;
	__asm__ __volatile__("" ::"r"(buf) : "memory");
}

int sim_main(int argc, char** argv, std::vector<Engine*> engines)
{
	maybe_disable_aslr(argv);
	std::string engine_name, replay_file, outdir = ".";
	Opts opts;
	uint64_t seed = 20260927;
	long nruns = -1, worker = 0, nworkers = 1, print_plan = -1, first = 0;
	int shrink_budget = 400, max_shrunk_per_class = 1, max_viol = 25;
	double det_frac = 0.05;
	for(int a = 1; a < argc; a++)
	{
		std::string k = argv[a];
		auto val	  = [&]() -> std::string {
			 if(a + 1 >= argc)
				 usage();
			 return argv[++a];
		};
		if(k == "--engine")
			engine_name = val();
		else if(k == "--prop")
			opts.prop = val();
		else if(k == "--tier")
			opts.tier = val();
		else if(k == "--config")
			opts.config = val();
		else if(k == "--seed")
			seed = strtoull(val().c_str(), nullptr, 10);
		else if(k == "--nruns")
			nruns = atol(val().c_str());
		else if(k == "--first")
			first = atol(val().c_str());
		else if(k == "--worker")
			worker = atol(val().c_str());
		else if(k == "--nworkers")
			nworkers = atol(val().c_str());
		else if(k == "--out")
			outdir = val();
		else if(k == "--replay-plan")
			replay_file = val();
		else if(k == "--print-plan")
			print_plan = atol(val().c_str());
		else if(k == "--timeout")
			opts.timeout_s = atoi(val().c_str());
		else if(k == "--shrink-budget")
			shrink_budget = atoi(val().c_str());
		else if(k == "--det-frac")
			det_frac = atof(val().c_str());
		else if(k == "--max-viol")
			max_viol = atoi(val().c_str());
		else if(k == "--kv")
		{
			std::string v = val();
			size_t eq	  = v.find('=');
			if(eq == std::string::npos)
				usage();
			opts.kv[v.substr(0, eq)] = v.substr(eq + 1);
		}
		else
			usage();
	}
	Engine* eng = nullptr;
	for(auto e : engines)
		if(engine_name == e->name())
			eng = e;
	if(!eng || opts.prop.empty())
		usage();

	g_shared = (Shared*) mmap(nullptr, sizeof(Shared), PROT_READ | PROT_WRITE, MAP_SHARED | MAP_ANONYMOUS, -1, 0);
	g_capfd	 = memfd_create("simcap", 0);
	if(g_shared == MAP_FAILED || g_capfd < 0)
	{
		perror("sim: setup");
		return 2;
	}
	// Keep our own diagnostics apart from the children's stdout.
	setvbuf(stdout, nullptr, _IOLBF, 0);

	uint64_t stream = prop_stream(seed, opts.prop);
	early_prepare();

	if(print_plan >= 0)
	{
		Plan p = eng->generate(run_seed(stream, (uint64_t) print_plan), opts);
		assign_threads(p, run_seed(stream, (uint64_t) print_plan));
		fputs(p.text().c_str(), stdout);
		return 0;
	}

	if(!replay_file.empty())
	{
		std::ifstream f(replay_file);
		if(!f)
		{
			fprintf(stderr, "sim: cannot open %s\n", replay_file.c_str());
			return 2;
		}
		std::stringstream ss;
		ss << f.rdbuf();
		Plan p		= Plan::parse(ss.str());
		RunResult r = run_child(*eng, p, opts, true);
		RunResult s = run_child(*eng, p, opts, false);
		bool same	= (r.v.any == s.v.any && r.v.cls == s.v.cls && r.v.op == s.v.op && r.hash == s.hash);
		printf("{\"t\":\"replay\",\"outcome\":%s,\"violation\":%s,\"cls\":%s,\"op\":%d,\"hash\":\"%s\",\"deterministic\":%s,\"detail\":%s,\"tail\":%s}\n", jstr(r.outcome).c_str(), r.v.any ? "true" : "false", jstr(r.v.cls).c_str(), r.v.op, hex64(r.hash).c_str(), same ? "true" : "false", jstr(r.v.detail).c_str(), jstr(r.tail).c_str());
		if(!same)
			return 2;
		return r.v.any ? 1 : 0;
	}

	if(nruns < 0)
		nruns = eng->default_runs(opts);
	std::vector<std::string> pnames = eng->probe_names();
	std::vector<std::string> mnames = eng->metric_names();
	std::vector<uint64_t> probe_sum(MAX_PROBES, 0), probe_runs(MAX_PROBES, 0);
	std::vector<double> metric_max(32, 0.0);
	std::vector<uint8_t> states(MAX_STATES / 8, 0);
	std::map<std::string, int> shrunk_per_class;
	uint64_t total_ops = 0, total_events = 0, det_reruns = 0, det_mismatch = 0, nviol = 0, executed = 0, ambient_errno = 0, ambient_fpflags = 0, early_calls = 0, dirty_stack = 0, heap_perturbed = 0, thread_ops = 0, thread_switches = 0, late_calls = 0;
	int samples_emitted = 0;
	Shared snap;
	for(long i = first + worker; i < first + nruns; i += nworkers)
	{
		uint64_t rs = run_seed(stream, (uint64_t) i);
		Plan plan	= eng->generate(rs, opts);
		assign_threads(plan, rs);
		RunResult r = run_child(*eng, plan, opts, false, &snap);
		executed++;
		total_ops += r.nops;
		total_events += r.nevents;
		ambient_errno += snap.ambient_errno;
		ambient_fpflags += snap.ambient_fpflags;
		early_calls += snap.early_calls;
		dirty_stack += snap.dirty_stack;
		heap_perturbed += snap.heap_perturbed;
		thread_ops += snap.thread_ops;
		thread_switches += snap.thread_switches;
		late_calls += snap.late_calls;
		for(int k = 0; k < MAX_PROBES; k++)
		{
			probe_sum[k] += snap.probes[k];
			if(snap.probes[k])
				probe_runs[k]++;
		}
		for(int k = 0; k < 32; k++)
			if(snap.metrics[k] > metric_max[k])
				metric_max[k] = snap.metrics[k];
		for(size_t k = 0; k < states.size(); k++)
			states[k] |= snap.states[k];
		printf("{\"t\":\"run\",\"i\":%ld,\"seed\":\"%s\",\"hash\":\"%s\",\"plan\":\"%s\",\"ops\":%llu,\"nt\":%d,\"outcome\":%s}\n", i, hex64(rs).c_str(), hex64(r.hash).c_str(), hex64(plan.hash()).c_str(), (unsigned long long) r.nops, r.nontrivial ? 1 : 0, jstr(r.outcome).c_str());
		if(r.nontrivial && samples_emitted < 2 && !r.v.any)
		{
			samples_emitted++;
			std::string arr;
			size_t shown = std::min<size_t>(plan.ops.size(), 14);
			for(size_t k = 0; k < shown; k++)
			{
				std::string line = plan.ops[k].text();
				if(line.size() > 220)
					line = line.substr(0, 220) + "...";
				arr += (k ? "," : "") + jstr(line);
			}
			printf("{\"t\":\"sample\",\"i\":%ld,\"seed\":\"%s\",\"total_ops\":%zu,\"first_ops\":[%s]}\n", i, hex64(rs).c_str(), plan.ops.size(), arr.c_str());
		}
		// determinism gate on a deterministic subset of runs, and on every failing run
		bool rerun = r.v.any || (mix64(rs ^ 0xD37ull) % 10000) < (uint64_t)(det_frac * 10000);
		RunResult r2;
		if(rerun)
		{
			r2 = run_child(*eng, plan, opts, true);
			det_reruns++;
			bool same = (r.v.any == r2.v.any && r.v.cls == r2.v.cls && r.v.op == r2.v.op && r.hash == r2.hash);
			if(!same)
			{
				det_mismatch++;
				printf("{\"t\":\"error\",\"i\":%ld,\"msg\":%s}\n", i, jstr(fmt("nondeterministic run: first %s/%s/op%d/%s second %s/%s/op%d/%s", r.outcome.c_str(), r.v.cls.c_str(), r.v.op, hex64(r.hash).c_str(), r2.outcome.c_str(), r2.v.cls.c_str(), r2.v.op, hex64(r2.hash).c_str())).c_str());
				continue;
			}
		}
		if(r.v.any)
		{
			nviol++;
			std::string plan_file;
			size_t orig_ops = plan.ops.size(), shrunk_ops = plan.ops.size();
			int execs		= 0;
			RunResult fin	= r2;
			if(shrunk_per_class[r.v.cls] < max_shrunk_per_class)
			{
				shrunk_per_class[r.v.cls]++;
				Shrinker sh{*eng, opts, r.v.cls};
				sh.budget  = r.outcome == "timeout" ? 0 : shrink_budget;   // a hanging plan is reported as it is: every re-execution costs a full timeout
				Plan small = sh.shrink(plan);
				execs	   = sh.execs;
				fin		   = run_child(*eng, small, opts, true);
				if(!fin.v.any || fin.v.cls != r.v.cls)
				{
					// should not happen (shrinker only accepts failing plans); fall back to the original
					small = plan;
					fin	  = r2;
				}
				shrunk_ops = small.ops.size();
				plan_file  = outdir + "/" + opts.prop + "-" + hex64(rs) + "-" + hex64(fin.hash) + ".plan";
				std::ofstream pf(plan_file);
				pf << "# property " << opts.prop << " engine " << eng->name() << " class " << fin.v.cls << " op " << fin.v.op << "\n";
				pf << small.text();
			}
			printf("{\"t\":\"viol\",\"i\":%ld,\"seed\":\"%s\",\"cls\":%s,\"op\":%d,\"detail\":%s,\"outcome\":%s,\"hash\":\"%s\",\"plan_file\":%s,\"orig_ops\":%zu,\"shrunk_ops\":%zu,\"shrink_execs\":%d,\"tail\":%s}\n", i, hex64(rs).c_str(), jstr(fin.v.cls).c_str(), fin.v.op, jstr(fin.v.detail).c_str(), jstr(fin.outcome).c_str(), hex64(fin.hash).c_str(), jstr(plan_file).c_str(), orig_ops, shrunk_ops, execs, jstr(fin.tail).c_str());
			if(r.outcome == "timeout")
			{
				printf("{\"t\":\"note\",\"msg\":\"stopping this worker after a timeout (hangs are too expensive to collect)\"}\n");
				break;
			}
			if((int) nviol >= max_viol)
			{
				printf("{\"t\":\"note\",\"msg\":\"stopping early after %d violating runs\"}\n", max_viol);
				break;
			}
		}
	}
	// summary
	std::string pj, mj, sj;
	for(size_t k = 0; k < pnames.size() && k < (size_t) MAX_PROBES; k++)
		pj += (k ? "," : "") + jstr(pnames[k]) + ":[" + std::to_string(probe_sum[k]) + "," + std::to_string(probe_runs[k]) + "]";
	for(size_t k = 0; k < mnames.size() && k < 32; k++)
		mj += (k ? "," : "") + jstr(mnames[k]) + ":" + fmt("%.6g", metric_max[k]);
	bool first_state = true;
	for(uint32_t id = 0; id < (uint32_t) MAX_STATES; id++)
		if(states[id >> 3] & (1u << (id & 7)))
		{
			sj += (first_state ? "" : ",") + std::to_string(id);
			first_state = false;
		}
	printf("{\"t\":\"sum\",\"worker\":%ld,\"executed\":%llu,\"ops\":%llu,\"events\":%llu,\"violations\":%llu,\"det_reruns\":%llu,\"det_mismatches\":%llu,\"ambient_errno\":%llu,\"ambient_fpflags\":%llu,\"early_calls\":%llu,\"dirty_stack\":%llu,\"heap_perturbed\":%llu,\"thread_ops\":%llu,\"thread_switches\":%llu,\"late_calls\":%llu,\"probes\":{%s},\"metrics\":{%s},\"states\":[%s]}\n", worker, (unsigned long long) executed, (unsigned long long) total_ops, (unsigned long long) total_events, (unsigned long long) nviol, (unsigned long long) det_reruns, (unsigned long long) det_mismatch, (unsigned long long) ambient_errno, (unsigned long long) ambient_fpflags, (unsigned long long) early_calls, (unsigned long long) dirty_stack, (unsigned long long) heap_perturbed, (unsigned long long) thread_ops, (unsigned long long) thread_switches, (unsigned long long) late_calls, pj.c_str(), mj.c_str(), sj.c_str());
	return det_mismatch ? 2 : 0;
}

}	// namespace sim
