// Link-time seams (ld --wrap): every entropy / clock source the library objects could reach is
// redirected here. Values are fresh on every draw but fully determined by the seed the plan
// set for the current API call, so a run replays exactly while any *hidden* use of entropy or
// time still shows up as a difference between two executions of the same call.
#include "sim.hpp"

#include <sys/time.h>
#include <sys/types.h>
#include <time.h>

namespace sim
{
static uint64_t g_call_seed		= 0;
static uint64_t g_draw_in_call	= 0;
static uint64_t g_draws_total	= 0;
static uint64_t g_other_sources = 0;   // clock/rand/... reads (no property allows the library to use them)
static Log* g_log				= nullptr;

void entropy_set_call_seed(uint64_t seed)
{
	g_call_seed	   = seed;
	g_draw_in_call = 0;
}
uint64_t entropy_draws_total() { return g_draws_total; }
uint64_t entropy_other_sources() { return g_other_sources; }
void entropy_attach_log(Log* log) { g_log = log; }

static uint64_t next_value(int source)
{
	uint64_t v = mix64(g_call_seed ^ mix64(g_draw_in_call * 0x9E37ull + (uint64_t) source));
	g_draw_in_call++;
	if(source == 0)
		g_draws_total++;
	else
		g_other_sources++;
	if(g_log)
	{
		g_log->u64(0xE0ull + (uint64_t) source);
		g_log->u64(v);
	}
	return v;
}
}	// namespace sim

using sim::next_value;

extern "C"
{
	// unsigned int std::random_device::_M_getval()
	unsigned int __wrap__ZNSt13random_device9_M_getvalEv(void*)
	{
		// The first draw of a call returns the low 32 bits of the call seed itself, so that plans can
		// inject specific device outputs (0, 1, 2^32-1, repeats); later draws are mixed.
		if(sim::g_draw_in_call == 0)
		{
			sim::g_draw_in_call++;
			sim::g_draws_total++;
			unsigned int v = (unsigned int) (sim::g_call_seed & 0xffffffffu);
			if(sim::g_log)
			{
				sim::g_log->u64(0xE0ull);
				sim::g_log->u64(v);
			}
			return v;
		}
		return (unsigned int) next_value(0);
	}
	int __wrap_rand(void) { return (int) (next_value(1) & 0x7fffffff); }
	long __wrap_random(void) { return (long) (next_value(2) & 0x7fffffff); }
	long __wrap_lrand48(void) { return (long) (next_value(3) & 0x7fffffff); }
	double __wrap_drand48(void) { return (double) (next_value(4) >> 11) * (1.0 / 9007199254740992.0); }
	time_t __wrap_time(time_t* t)
	{
		time_t v = (time_t) (1600000000 + (next_value(5) % 100000000));
		if(t)
			*t = v;
		return v;
	}
	clock_t __wrap_clock(void) { return (clock_t) (next_value(6) % 1000000000); }
	int __wrap_clock_gettime(clockid_t, struct timespec* ts)
	{
		uint64_t v = next_value(7);
		if(ts)
		{
			ts->tv_sec	= (time_t) (1600000000 + (v % 100000000));
			ts->tv_nsec = (long) ((v >> 32) % 1000000000);
		}
		return 0;
	}
	int __wrap_gettimeofday(struct timeval* tv, void*)
	{
		uint64_t v = next_value(8);
		if(tv)
		{
			tv->tv_sec	= (time_t) (1600000000 + (v % 100000000));
			tv->tv_usec = (long) ((v >> 32) % 1000000);
		}
		return 0;
	}
	long __wrap__ZNSt6chrono3_V212system_clock3nowEv(void) { return (long) (1600000000000000000ll + (long) (next_value(9) % 1000000000000000ll)); }
	long __wrap__ZNSt6chrono3_V212steady_clock3nowEv(void) { return (long) (next_value(10) % 1000000000000000ll); }
}
