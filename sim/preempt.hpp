// Pre-emptive (but still deterministic) scheduling of two caller threads INSIDE library calls.
//
// The op-boundary hand-over of Ctx::on_thread cannot show what happens when two callers are inside the library at the same
// time. Here the library objects are compiled - by the harness build, not by a change to /repo - with
//   clang++ -fsanitize-coverage=trace-pc-guard,trace-loads,trace-stores
// so that every load and store of library code (including code a future change adds) calls back into the simulator. A
// callback whose address lies in the executable's static storage (.data/.bss: namespace-scope objects, function-local
// statics, their guard variables) is a *scheduling point*: the seeded schedule decides whether the running thread is parked
// there and the other one released. Exactly one of the two threads runs at any time, so one (plan, schedule seed) pair is one
// exactly repeatable interleaving at the granularity of accesses to shared static memory. Code that touches no static storage
// has no scheduling points and its calls are, correctly, never interleaved: nothing they do could be observed by the other.
//
// In builds without the instrumentation (every configuration but `clang-O1-preempt`) run_pair() degenerates to "a, then b"
// (or "b, then a") on two threads.
#pragma once
#include <cstdint>
#include <functional>

namespace sim
{
namespace preempt
{
struct Stats
{
	uint64_t points	  = 0;	 // accesses to static storage seen while the pair ran
	uint64_t switches = 0;	 // hand-overs performed at such points
	bool instrumented = false;
};
// mode 0: hand over at every `arg`-th point (arg 1..4); mode 1: hand over at up to three seeded point numbers below `arg`;
// mode 2: hand over with probability 1/arg at each point (seeded)
Stats run_pair(const std::function<void()>& a, const std::function<void()>& b, uint64_t seed, int mode, uint64_t arg);
bool build_is_instrumented();
}	// namespace preempt
}	// namespace sim
