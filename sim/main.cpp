#include "sim.hpp"

// Engines are optional at link time (weak): an engine that is not built is simply not offered.
__attribute__((weak)) sim::Engine* make_interp_engine();
__attribute__((weak)) sim::Engine* make_mc_engine();
__attribute__((weak)) sim::Engine* make_samplers_engine();
__attribute__((weak)) sim::Engine* make_fileio_engine();
__attribute__((weak)) sim::Engine* make_memo_engine();

// Classify sanitizer reports by exit status; leak checking is meaningless for children that _exit().
extern "C" __attribute__((used, visibility("default"))) const char* __asan_default_options() { return "exitcode=77:detect_leaks=0:abort_on_error=0:allocator_may_return_null=1"; }
extern "C" __attribute__((used, visibility("default"))) const char* __ubsan_default_options() { return "halt_on_error=1:exitcode=78:print_stacktrace=1"; }

int main(int argc, char** argv)
{
	std::vector<sim::Engine*> engines;
	if(make_interp_engine)
		engines.push_back(make_interp_engine());
	if(make_mc_engine)
		engines.push_back(make_mc_engine());
	if(make_samplers_engine)
		engines.push_back(make_samplers_engine());
	if(make_fileio_engine)
		engines.push_back(make_fileio_engine());
	if(make_memo_engine)
		engines.push_back(make_memo_engine());
	return sim::sim_main(argc, argv, engines);
}
