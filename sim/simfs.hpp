// Simulated file layer (see simfs.cpp). Paths under /simfs/ live in memory; reads and writes on
// them consult the fault descriptor attached to the current operation.
#pragma once
#include "sim.hpp"

#include <string>
#include <vector>

namespace simfs
{
struct Faults
{
	uint64_t seed = 0;
	double rate	  = 0.0;   // probability per read/write syscall of a *legal* perturbation (short transfer, EINTR)
	int hard_kind = 0;	   // 0 none, 1 ENOSPC, 2 EIO on the hard_index-th write-like syscall of the op (and all later ones)
	uint64_t hard_index = 0;
	bool fail_open_for_write = false;
	// state
	sim::Rng rng{0};
	uint64_t writes_seen = 0;
	bool hard_sticky	 = false;
};
struct Counters
{
	uint64_t opens_read = 0, opens_write = 0, open_failed = 0, write_calls = 0, read_calls = 0, stat_calls = 0;
	uint64_t short_write = 0, short_read = 0, eintr_write = 0, eintr_read = 0, hard_write = 0;
	uint64_t bytes_written = 0, bytes_read = 0;
	uint64_t emfile = 0, max_open = 0;
};

bool is_sim_path(const char* p);
void set_faults(const Faults& f);
void clear_faults();
void set_descriptor_limit(unsigned n);   // at most n simulated files open at once (0 = no limit); beyond that fopen fails with EMFILE
Counters& counters();
bool exists(const std::string& path);
std::vector<std::string> list();
bool read_all(const std::string& path, std::string& out);	// harness-side view of "the disk" (no faults)
void write_all(const std::string& path, const std::string& content);
void remove(const std::string& path);
}	// namespace simfs
