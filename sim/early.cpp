// Static-initialisation-order fault ("the call that comes before main").
//
// This translation unit plays a user's source file that is linked BEFORE the library's objects and calls the library while
// namespace-scope objects are still being constructed: `const double norm = Integrate_MC(...)` at file scope is ordinary user
// code. Which translation unit is initialised first is decided by the link line, not by the caller - a schedule like any other.
// A library routine whose result depends on one of its own dynamically initialised globals (a std::string constant, a
// std::vector table) misbehaves only under this order; routines that keep their state in function-local statics, as the pinned
// tree does, never notice.
//
// Each section is computed in its own forked child during this unit's dynamic initialisation (a library that exits or crashes
// there must not take the harness down) and shipped through a pipe into g_early, a constant-initialised record. After main() has
// started, the worker makes the same calls in a pristine child of its own (early_prepare()) and every run compares the two
// records (early_check(), called by sim.cpp before the plan's first op).
//
// Not covered on purpose: anything that reads libphysica's unit constants (Natural_Units.cpp defines most of them by dynamic
// initialisation on the pinned tree, so their value before main legitimately depends on link order) and the file layer.
#include "sim.hpp"

#include <csignal>
#include <fcntl.h>
#include <cstdio>
#include <random>
#include <sys/wait.h>
#include <unistd.h>

#include "libphysica/Integration.hpp"
#include "libphysica/Natural_Units.hpp"
#include "libphysica/Numerics.hpp"
#include "libphysica/Special_Functions.hpp"
#include "libphysica/Statistics.hpp"

namespace sim
{
EarlyRecord g_early;   // zero-initialised, no constructor: valid before any dynamic initialisation

static const double MC_CONST = 2.5;

int early_compute(int section, double* v)
{
	int n = 0;
	if(section == 0)
	{
		// constant integrands: the property fixes their value to region volume times the constant, whatever the method
		auto f = [](std::vector<double>&, const double) { return MC_CONST; };
		const char* methods[3] = {"Monte-Carlo", "Vegas", "Miser"};
		for(int m = 0; m < 3; m++)
		{
			std::vector<double> region = {0.0, -1.0, 1.0, 3.0};
			v[n++]					   = libphysica::Integrate_MC(f, region, 1000, methods[m]);
		}
		v[n++] = libphysica::Integrate_2D([](double, double) { return MC_CONST; }, 0.0, 1.0, -1.0, 3.0, "Miser", 1000);
		v[n++] = libphysica::Integrate_3D([](double, double, double) { return MC_CONST; }, 0.0, 1.0, -1.0, 3.0, 0.0, 1.0, "Monte-Carlo", 1000);
		v[n++] = libphysica::Integrate_2D([](double, double) { return MC_CONST; }, 0.0, 1.0, -1.0, 3.0, "Vegas", 1000);
	}
	else if(section == 1)
	{
		std::vector<double> x = {0.0, 0.5, 1.25, 2.0, 3.5, 4.0, 6.0}, y = {1.0, 2.0, 1.5, -0.5, 0.25, 3.0, 2.0};
		libphysica::Interpolation f(x, y);
		const double at[6] = {0.1, 5.9, 2.0, 3.49, 0.5, 1.0};
		for(double a : at)
			v[n++] = f(a);
		v[n++] = f.Derivative(1.0);
		v[n++] = f.Derivative(3.0, 2);
		v[n++] = f.Integrate(0.25, 5.5);
		v[n++] = f.Local_Minimum(0.0, 6.0);
		v[n++] = f.Global_Maximum();
		f.Set_Prefactor(-3.0);
		v[n++] = f(2.5);
		libphysica::Interpolation g;
		v[n++] = g(0.5);
		std::vector<std::vector<double>> z(3, std::vector<double>(3));
		for(int i = 0; i < 3; i++)
			for(int j = 0; j < 3; j++)
				z[i][j] = i * 1.5 - j * j + 0.25 * i * j;
		libphysica::Interpolation_2D h({0.0, 1.0, 3.0}, {-1.0, 0.0, 2.0}, z);
		v[n++] = h(0.5, 1.0);
		v[n++] = h(2.9, -0.9);
	}
	else if(section == 2)
	{
		std::mt19937 rng(20240917u);
		for(int i = 0; i < 3; i++)
			v[n++] = libphysica::Sample_Uniform(rng, -1.0, 2.0);
		for(int i = 0; i < 3; i++)
			v[n++] = libphysica::Sample_Gauss(rng, 1.0, 0.5);
		v[n++] = libphysica::Sample_Poisson(rng, 3.5);
		v[n++] = libphysica::Sample_Poisson(rng, 250.0);
		for(unsigned int k : libphysica::Sample_Poisson(rng, std::vector<double>{0.5, 12.0}))
			v[n++] = k;
		for(double s : libphysica::Sample_Metropolis(rng, [](double t) { return std::exp(-0.5 * t * t); }, 1.0, 4, 2, 10))
			v[n++] = s;
		v[n++] = (double) rng();
	}
	else if(section == 3)
	{
		v[n++] = libphysica::Factorial(10);
		v[n++] = libphysica::Factorial(0);
		v[n++] = libphysica::Binomial_Coefficient(20, 7);
		v[n++] = libphysica::Factorial(25);
		v[n++] = libphysica::Binomial_Coefficient(60, 30);
		v[n++] = libphysica::Factorial(3);
		v[n++] = libphysica::Binomial_Coefficient(200, 3);
	}
	else if(section == 4)
	{
		// unit conversions with explicit numerical units (the unit CONSTANTS are dynamically initialised on the pinned tree and
		// are therefore not touched here)
		v[n++] = libphysica::natural_units::In_Units(4321.0, 1.0, true, 1);
		v[n++] = libphysica::natural_units::In_Units(0.012345678, 1e-3, true, 3);
		v[n++] = libphysica::natural_units::In_Units(-98765.4321, 2.0, true, 7);
		v[n++] = libphysica::natural_units::In_Units(5.5, 0.25);
		for(double q : libphysica::natural_units::In_Units(std::vector<double>{1.0, 22.5, 333.25, 4444.125, 5e-7, 6e9, 7.0, 8.125}, 0.5, true, 2))
			v[n++] = q;
		for(auto& row : libphysica::natural_units::In_Units(std::vector<std::vector<double>>{{1.5, 2.5}, {3.25, 4.75}}, std::vector<double>{2.0, 0.5}, true, 2))
			for(double q : row)
				v[n++] = q;
	}
	return n;
}

// Calls made while the process shuts down: the destructor of an object that was constructed BEFORE the first library call runs
// after everything those calls built lazily (function-local statics) has been destroyed. User code does this with global
// loggers and atexit handlers. Only for code whose pinned version keeps nothing with a destructor: interpolation, samplers, unit
// conversion. (Factorial's memo table and the integrators' work vectors are function statics with destructors on the pinned
// tree: a call after their destruction is not a valid request there.)
static bool late_section(int s) { return s == 1 || s == 2 || s == 4; }
struct LateCaller
{
	int section = -1, fd = -1;
	~LateCaller()
	{
		if(section < 0)
			_exit(0);
		double w[EARLY_SLOTS] = {0};
		int m				  = -1;
		try
		{
			m = early_compute(section, w);
		}
		catch(...)
		{
			_exit(97);
		}
		ssize_t k = write(fd, &m, sizeof m);
		k += write(fd, w, sizeof(double) * (m > 0 ? m : 0));
		(void) k;
		_exit(0);
	}
};

static int run_sections(EarlyRecord& rec, bool with_late)
{
	for(int s = 0; s < EARLY_SECTIONS; s++)
	{
		int fds[2];
		if(pipe(fds) != 0)
			continue;
		fflush(nullptr);
		pid_t pid = fork();
		if(pid < 0)
			continue;
		if(pid == 0)
		{
			close(fds[0]);
			int devnull = open("/dev/null", O_WRONLY);
			dup2(devnull, 1);
			dup2(devnull, 2);
			alarm(20);
			static LateCaller late;	  // constructed before the first library call of this child, hence destroyed after its statics
			double v[EARLY_SLOTS] = {0};
			int n				  = 0;
			try
			{
				n = early_compute(s, v);
			}
			catch(...)
			{
				_exit(99);
			}
			ssize_t w = write(fds[1], &n, sizeof n);
			w += write(fds[1], v, sizeof(double) * n);
			if(w != (ssize_t)(sizeof n + sizeof(double) * n))
				_exit(98);
			if(with_late && late_section(s))
			{
				late.section = s;
				late.fd		 = fds[1];
				exit(0);   // static destruction; ~LateCaller repeats the calls and ends the process
			}
			_exit(0);
		}
		close(fds[1]);
		int n = 0;
		if(read(fds[0], &n, sizeof n) == (ssize_t) sizeof n && n >= 0 && n <= EARLY_SLOTS && read(fds[0], rec.v[s], sizeof(double) * n) == (ssize_t)(sizeof(double) * n))
			rec.n[s] = n;
		else
			rec.n[s] = -1;
		rec.late_n[s] = -1;
		if(with_late && late_section(s) && rec.n[s] >= 0)
		{
			int m = 0;
			if(read(fds[0], &m, sizeof m) == (ssize_t) sizeof m && m >= 0 && m <= EARLY_SLOTS && read(fds[0], rec.late_v[s], sizeof(double) * m) == (ssize_t)(sizeof(double) * m))
				rec.late_n[s] = m;
		}
		close(fds[0]);
		int status = 0;
		while(waitpid(pid, &status, 0) < 0 && errno == EINTR) {}
		rec.status[s] = status;
		rec.ran[s]	  = 1;
	}
	return 1;
}

static EarlyRecord g_usual;   // the same calls made after main() has started, in a pristine child of the worker
static int g_early_done = run_sections(g_early, true);

void early_prepare() { run_sections(g_usual, false); }

void early_check(Ctx& ctx)
{
	(void) g_early_done;
	int s = -1;
	if(ctx.prop_is("C14"))
		s = 0;
	else if(ctx.prop_is("C09") || ctx.prop_is("C08"))
		s = 1;
	else if(ctx.prop_is("C18"))
		s = 2;
	else if(ctx.prop_is("C06"))
		s = 3;
	else if(ctx.prop_is("C20"))
		s = 4;
	if(s < 0 || !g_early.ran[s])
		return;
	std::string cls = ctx.opts->prop + ":call-during-static-initialisation";
	static const char* what[EARLY_SECTIONS] = {"Monte Carlo integrations of a constant", "interpolation calls", "sampler calls", "Factorial/Binomial_Coefficient calls", "In_Units calls"};
	int st = g_early.status[s];
	if(!WIFEXITED(st) || WEXITSTATUS(st) != 0 || g_early.n[s] < 0)
		ctx.violate(cls, fmt("%s made from a translation unit initialised before the library's (i.e. before main) did not return: %s %d", what[s], WIFSIGNALED(st) ? "killed by signal" : "exit status", WIFSIGNALED(st) ? WTERMSIG(st) : WEXITSTATUS(st)));
	ctx.sh->early_calls += (uint64_t) g_early.n[s];
	if(late_section(s))
	{
		std::string lcls = ctx.opts->prop + ":call-during-static-destruction";
		if(g_early.late_n[s] != g_early.n[s])
			ctx.violate(lcls, fmt("%s repeated from the destructor of an object constructed before the first library call (i.e. while the process shuts down) did not return (%d of %d values)", what[s], g_early.late_n[s], g_early.n[s]));
		for(int i = 0; i < g_early.n[s]; i++)
			if(!same_bits(g_early.late_v[s][i], g_early.v[s][i]))
				ctx.violate(lcls, fmt("%s: value #%d is %s in normal operation and %s when the same call is repeated while the process shuts down", what[s], i, hexf(g_early.v[s][i]).c_str(), hexf(g_early.late_v[s][i]).c_str()));
		ctx.sh->late_calls += (uint64_t) g_early.n[s];
	}
	if(s == 0)
	{
		const double expect[6] = {4.0 * MC_CONST, 4.0 * MC_CONST, 4.0 * MC_CONST, 4.0 * MC_CONST, 4.0 * MC_CONST, 4.0 * MC_CONST};
		for(int i = 0; i < g_early.n[s]; i++)
			if(!(std::fabs(g_early.v[s][i] - expect[i]) <= 1e-9 * expect[i]))
				ctx.violate(cls, fmt("Monte Carlo integration #%d of the constant %g over a region of volume 4, called before main, returned %s instead of %g", i, MC_CONST, hexf(g_early.v[s][i]).c_str(), expect[i]));
		return;
	}
	if(!g_usual.ran[s] || g_usual.n[s] < 0)
		return;	  // no reference (early_prepare() not run or its child failed: then every ordinary op fails too)
	int n = g_usual.n[s];
	if(n != g_early.n[s])
		ctx.violate(cls, fmt("%s: %d values before main, %d after", what[s], g_early.n[s], n));
	for(int i = 0; i < n; i++)
		if(!same_bits(g_usual.v[s][i], g_early.v[s][i]))
			ctx.violate(cls, fmt("%s: value #%d was %s when called before main and is %s when called first thing after main", what[s], i, hexf(g_early.v[s][i]).c_str(), hexf(g_usual.v[s][i]).c_str()));
}
}	// namespace sim
