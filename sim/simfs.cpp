// Simulated file layer. The harness executable defines fopen64/fopen/fclose/read/write/writev/stat;
// libstdc++'s basic_filebuf reaches libc through the PLT, so every std::fstream operation of
// libphysica on a path under /simfs/ lands here while libphysica and libstdc++ run real code.
// A simulated file is one memfd ("the disk"); each open is a fresh open file description of it
// through /proc/self/fd/N, so offsets, O_TRUNC and O_APPEND behave as in the kernel.
// Faults (short write/read, EINTR, ENOSPC/EIO, failed open) are drawn from the fault stream the
// plan attached to the current operation.
#include "simfs.hpp"

#include <cerrno>
#include <cstdarg>
#include <cstring>
#include <dlfcn.h>
#include <fcntl.h>
#include <map>
#include <sys/mman.h>
#include <sys/stat.h>
#include <sys/uio.h>
#include <unistd.h>

namespace simfs
{
static const char* PREFIX = "/simfs/";
struct File
{
	int memfd;
	ino_t ino;
};
static std::map<std::string, File>* g_files;
static std::map<int, ino_t>* g_open;   // fd -> inode of the memfd it was opened on
static Faults g_faults;
static unsigned g_fd_limit = 0;
static Counters g_counters;
static bool g_in_sim = false;	// re-entrancy guard (our own bookkeeping must not be faulted)

static std::map<std::string, File>& files()
{
	if(!g_files)
		g_files = new std::map<std::string, File>();
	return *g_files;
}
static std::map<int, ino_t>& opened()
{
	if(!g_open)
		g_open = new std::map<int, ino_t>();
	return *g_open;
}

template <class F>
static F real(const char* name)
{
	return (F) dlsym(RTLD_NEXT, name);
}

bool is_sim_path(const char* p) { return p && strncmp(p, PREFIX, strlen(PREFIX)) == 0; }

static bool is_sim_fd(int fd)
{
	auto it = opened().find(fd);
	if(it == opened().end())
		return false;
	struct stat st;
	if(fstat(fd, &st) != 0 || st.st_ino != it->second)
	{
		opened().erase(it);	  // the descriptor was closed behind our back and reused
		return false;
	}
	return true;
}

void set_faults(const Faults& f)
{
	g_faults = f;
	g_faults.rng = sim::Rng(f.seed);
	g_faults.writes_seen = 0;
}
void clear_faults() { g_faults = Faults(); }
Counters& counters() { return g_counters; }
void set_descriptor_limit(unsigned n) { g_fd_limit = n; }

bool exists(const std::string& path) { return files().count(path) != 0; }
std::vector<std::string> list()
{
	std::vector<std::string> out;
	for(auto& kv : files())
		out.push_back(kv.first);
	return out;
}
bool read_all(const std::string& path, std::string& out)
{
	auto it = files().find(path);
	if(it == files().end())
		return false;
	struct stat st;
	if(fstat(it->second.memfd, &st) != 0)
		return false;
	out.resize((size_t) st.st_size);
	ssize_t r = pread(it->second.memfd, &out[0], out.size(), 0);
	if(r < 0)
		return false;
	out.resize((size_t) r);
	return true;
}
void write_all(const std::string& path, const std::string& content)
{
	auto it = files().find(path);
	if(it == files().end())
	{
		int fd = memfd_create("simfile", 0);
		struct stat st;
		fstat(fd, &st);
		it = files().insert({path, File{fd, st.st_ino}}).first;
	}
	if(ftruncate(it->second.memfd, 0) != 0) {}
	if(pwrite(it->second.memfd, content.data(), content.size(), 0) < 0) {}
}
void remove(const std::string& path)
{
	auto it = files().find(path);
	if(it != files().end())
	{
		close(it->second.memfd);
		files().erase(it);
	}
}

static int open_sim(const char* path, int flags)
{
	std::string p(path);
	auto it		 = files().find(p);
	bool writing = (flags & O_ACCMODE) != O_RDONLY;
	if(writing && g_faults.fail_open_for_write)
	{
		g_counters.open_failed++;
		errno = EACCES;
		return -1;
	}
	{
		// NAME_MAX as on every Linux file system: a file name (last path component) longer than 255 bytes cannot exist
		size_t slash = p.rfind('/');
		if(p.size() - (slash == std::string::npos ? 0 : slash + 1) > 255)
		{
			errno = ENAMETOOLONG;
			return -1;
		}
	}
	if(g_fd_limit && opened().size() >= g_fd_limit)
	{
		// the simulated process's descriptor table is full (a small RLIMIT_NOFILE): only code that forgets to close gets here
		g_counters.emfile++;
		errno = EMFILE;
		return -1;
	}
	if(it == files().end())
	{
		if(!(flags & O_CREAT))
		{
			errno = ENOENT;
			return -1;
		}
		int fd = memfd_create("simfile", 0);
		if(fd < 0)
			return -1;
		struct stat st;
		fstat(fd, &st);
		it = files().insert({p, File{fd, st.st_ino}}).first;
	}
	char proc[64];
	snprintf(proc, sizeof proc, "/proc/self/fd/%d", it->second.memfd);
	int fd = open(proc, flags & ~(O_CREAT | O_EXCL));
	if(fd >= 0)
	{
		opened()[fd] = it->second.ino;
		if(opened().size() > g_counters.max_open)
			g_counters.max_open = opened().size();
		if(writing)
			g_counters.opens_write++;
		else
			g_counters.opens_read++;
	}
	return fd;
}

static int mode_flags(const char* mode)
{
	bool plus = strchr(mode, '+') != nullptr;
	switch(mode[0])
	{
		case 'r': return plus ? O_RDWR : O_RDONLY;
		case 'w': return (plus ? O_RDWR : O_WRONLY) | O_CREAT | O_TRUNC;
		case 'a': return (plus ? O_RDWR : O_WRONLY) | O_CREAT | O_APPEND;
		default: return O_RDONLY;
	}
}

static FILE* fopen_sim(const char* path, const char* mode)
{
	int fd = open_sim(path, mode_flags(mode));
	if(fd < 0)
		return nullptr;
	FILE* f = fdopen(fd, mode);
	if(!f)
	{
		opened().erase(fd);
		close(fd);
	}
	return f;
}

// decide a fault for one write-like syscall of `n` bytes: returns bytes to really write (n = no fault), or -1 with errno set
static ssize_t write_fault(size_t n)
{
	Faults& f = g_faults;
	f.writes_seen++;
	if(f.hard_kind && f.writes_seen == f.hard_index)
	{
		g_counters.hard_write++;
		errno = f.hard_kind == 1 ? ENOSPC : EIO;
		f.hard_sticky = true;
		return -1;
	}
	if(f.hard_sticky)
	{
		errno = f.hard_kind == 1 ? ENOSPC : EIO;
		return -1;
	}
	if(f.rate > 0 && f.rng.chance(f.rate))
	{
		if(f.rng.chance(0.4))
		{
			g_counters.eintr_write++;
			errno = EINTR;
			return -1;
		}
		if(n > 1)
		{
			g_counters.short_write++;
			return (ssize_t) (1 + f.rng.below(n - 1));
		}
	}
	return (ssize_t) n;
}
}	// namespace simfs

using namespace simfs;

extern "C"
{
	FILE* fopen64(const char* path, const char* mode)
	{
		if(is_sim_path(path))
			return fopen_sim(path, mode);
		static auto fn = real<FILE* (*) (const char*, const char*)>("fopen64");
		return fn(path, mode);
	}
	FILE* fopen(const char* path, const char* mode)
	{
		if(is_sim_path(path))
			return fopen_sim(path, mode);
		static auto fn = real<FILE* (*) (const char*, const char*)>("fopen");
		return fn(path, mode);
	}
	int fclose(FILE* f)
	{
		static auto fn = real<int (*)(FILE*)>("fclose");
		if(f && g_open)
		{
			int fd = fileno(f);
			if(fd >= 0)
				opened().erase(fd);
		}
		return fn(f);
	}
	ssize_t write(int fd, const void* buf, size_t n)
	{
		static auto fn = real<ssize_t (*)(int, const void*, size_t)>("write");
		if(g_open && !g_in_sim && n > 0 && is_sim_fd(fd))
		{
			g_counters.write_calls++;
			ssize_t k = write_fault(n);
			if(k < 0)
				return -1;
			ssize_t r = fn(fd, buf, (size_t) k);
			if(r > 0)
				g_counters.bytes_written += (uint64_t) r;
			return r;
		}
		return fn(fd, buf, n);
	}
	ssize_t writev(int fd, const struct iovec* iov, int cnt)
	{
		static auto fn = real<ssize_t (*)(int, const struct iovec*, int)>("writev");
		if(g_open && !g_in_sim && is_sim_fd(fd))
		{
			size_t total = 0;
			for(int i = 0; i < cnt; i++)
				total += iov[i].iov_len;
			g_counters.write_calls++;
			ssize_t k = total ? write_fault(total) : 0;
			if(k < 0)
				return -1;
			if((size_t) k == total)
			{
				ssize_t r = fn(fd, iov, cnt);
				if(r > 0)
					g_counters.bytes_written += (uint64_t) r;
				return r;
			}
			// short vectored write: write the first k bytes
			std::string flat;
			for(int i = 0; i < cnt; i++)
				flat.append((const char*) iov[i].iov_base, iov[i].iov_len);
			static auto w = real<ssize_t (*)(int, const void*, size_t)>("write");
			ssize_t r	  = w(fd, flat.data(), (size_t) k);
			if(r > 0)
				g_counters.bytes_written += (uint64_t) r;
			return r;
		}
		return fn(fd, iov, cnt);
	}
	ssize_t read(int fd, void* buf, size_t n)
	{
		static auto fn = real<ssize_t (*)(int, void*, size_t)>("read");
		if(g_open && !g_in_sim && n > 0 && is_sim_fd(fd))
		{
			g_counters.read_calls++;
			Faults& f = g_faults;
			if(f.rate > 0 && f.rng.chance(f.rate))
			{
				if(f.rng.chance(0.4))
				{
					g_counters.eintr_read++;
					errno = EINTR;
					return -1;
				}
				size_t k = 1 + (size_t) f.rng.below(7);
				if(k < n)
				{
					g_counters.short_read++;
					n = k;
				}
			}
			ssize_t r = fn(fd, buf, n);
			if(r > 0)
				g_counters.bytes_read += (uint64_t) r;
			return r;
		}
		return fn(fd, buf, n);
	}
	int stat(const char* path, struct stat* st)
	{
		if(is_sim_path(path))
		{
			g_counters.stat_calls++;
			auto it = files().find(path);
			if(it == files().end())
			{
				errno = ENOENT;
				return -1;
			}
			return fstat(it->second.memfd, st);
		}
		static auto fn = real<int (*)(const char*, struct stat*)>("stat");
		if(fn)
			return fn(path, st);
		return fstatat(AT_FDCWD, path, st, 0);
	}
	int stat64(const char* path, struct stat64* st)
	{
		if(is_sim_path(path))
			return stat(path, (struct stat*) st);
		static auto fn = real<int (*)(const char*, struct stat64*)>("stat64");
		if(fn)
			return fn(path, st);
		return fstatat64(AT_FDCWD, path, st, 0);
	}
}
