// see preempt.hpp
#include "preempt.hpp"

#include "sim.hpp"

#include <condition_variable>
#include <exception>
#include <mutex>
#include <set>
#include <thread>

extern "C" char __data_start, _end;

namespace sim
{
namespace preempt
{
namespace
{
std::mutex g_m;
std::condition_variable g_cv;
bool g_active = false;
int g_turn	  = -1;
bool g_fin[2] = {false, false};
uint64_t g_points = 0, g_switches = 0;
int g_mode		  = 0;
uint64_t g_arg	  = 1;
Rng g_rng(0);
std::set<uint64_t> g_at;
std::set<void*> g_guard_owner[2];   // function-static guards a thread is in the middle of initialising
thread_local int t_id	   = -1;
bool g_saw_instrumentation = false;

// called with g_m held by thread `me`: park me, release the other, return when it is my turn again
void hand_over(std::unique_lock<std::mutex>& lk, int me)
{
	g_turn = 1 - me;
	g_cv.notify_all();
	g_cv.wait(lk, [me] { return g_turn == me; });
}

void point(const void* addr)
{
	g_saw_instrumentation = true;
	int me				  = t_id;
	if(me < 0 || !g_active)
		return;
	const char* p = (const char*) addr;
	if(p < &__data_start || p >= &_end)
		return;	  // stack, heap, thread-local storage, other modules: not shared between the two calls by the library itself
	std::unique_lock<std::mutex> lk(g_m);
	g_points++;
	if(g_fin[1 - me])
		return;
	bool sw = false;
	if(g_mode == 0)
		sw = g_points % g_arg == 0;
	else if(g_mode == 1)
		sw = g_at.count(g_points) != 0;
	else
		sw = g_rng.below(g_arg) == 0;
	if(sw)
	{
		g_switches++;
		hand_over(lk, me);
	}
}

void body(int me, const std::function<void()>* fn, std::exception_ptr* err)
{
	t_id = me;
	{
		std::unique_lock<std::mutex> lk(g_m);
		g_cv.wait(lk, [me] { return g_turn == me; });
	}
	try
	{
		(*fn)();
	}
	catch(...)
	{
		*err = std::current_exception();
	}
	std::unique_lock<std::mutex> lk(g_m);
	g_fin[me]		  = true;
	g_guard_owner[me].clear();
	if(!g_fin[1 - me])
		g_turn = 1 - me;
	else
		g_turn = 2;	  // the coordinator
	g_cv.notify_all();
	t_id = -1;
}
}	// namespace

bool build_is_instrumented() { return g_saw_instrumentation; }

Stats run_pair(const std::function<void()>& a, const std::function<void()>& b, uint64_t seed, int mode, uint64_t arg)
{
	Stats st;
	std::exception_ptr err[2];
	{
		std::unique_lock<std::mutex> lk(g_m);
		g_active = true;
		g_fin[0] = g_fin[1] = false;
		g_points = g_switches = 0;
		g_mode				  = mode;
		g_arg				  = arg ? arg : 1;
		g_rng				  = Rng(mix64(seed ^ 0x9EE3977ull));
		g_at.clear();
		if(mode == 1)
			for(int k = 0, n = 1 + (int) g_rng.below(3); k < n; k++)
				g_at.insert(1 + g_rng.below(g_arg));
		g_guard_owner[0].clear();
		g_guard_owner[1].clear();
		g_turn = -1;
	}
	std::thread ta(body, 0, &a, &err[0]), tb(body, 1, &b, &err[1]);
	{
		std::unique_lock<std::mutex> lk(g_m);
		g_turn = (int) (mix64(seed ^ 0x57A47ull) & 1);
		g_cv.notify_all();
		g_cv.wait(lk, [] { return g_fin[0] && g_fin[1]; });
		g_active = false;
		st.points	= g_points;
		st.switches = g_switches;
	}
	ta.join();
	tb.join();
	st.instrumented = g_saw_instrumentation;
	if(err[0])
		std::rethrow_exception(err[0]);
	if(err[1])
		std::rethrow_exception(err[1]);
	return st;
}
}	// namespace preempt
}	// namespace sim

using namespace sim::preempt;

extern "C"
{
	// ---- coverage callbacks emitted into the library objects of the clang-O1-preempt configuration
	void __sanitizer_cov_trace_pc_guard_init(uint32_t*, uint32_t*) {}
	void __sanitizer_cov_trace_pc_guard(uint32_t*) {}
	void __sanitizer_cov_load1(uint8_t* p) { point(p); }
	void __sanitizer_cov_load2(uint16_t* p) { point(p); }
	void __sanitizer_cov_load4(uint32_t* p) { point(p); }
	void __sanitizer_cov_load8(uint64_t* p) { point(p); }
	void __sanitizer_cov_load16(void* p) { point(p); }
	void __sanitizer_cov_store1(uint8_t* p) { point(p); }
	void __sanitizer_cov_store2(uint16_t* p) { point(p); }
	void __sanitizer_cov_store4(uint32_t* p) { point(p); }
	void __sanitizer_cov_store8(uint64_t* p) { point(p); }
	void __sanitizer_cov_store16(void* p) { point(p); }

	// ---- function-local statics: the initialiser of a static is library code and may be parked half-way; the other thread would
	// then block inside __cxa_guard_acquire while it is the only one allowed to run. The wrapped guard functions hand the turn
	// back to the initialising thread instead (outside run_pair() they are plain pass-throughs).
	int __real___cxa_guard_acquire(void*);
	void __real___cxa_guard_release(void*);
	void __real___cxa_guard_abort(void*);
	int __wrap___cxa_guard_acquire(void* g)
	{
		int me = t_id;
		if(me >= 0 && g_active)
		{
			std::unique_lock<std::mutex> lk(g_m);
			while(g_guard_owner[1 - me].count(g) && !g_fin[1 - me])
				hand_over(lk, me);
		}
		int r = __real___cxa_guard_acquire(g);
		if(r && me >= 0 && g_active)
		{
			std::unique_lock<std::mutex> lk(g_m);
			g_guard_owner[me].insert(g);
		}
		return r;
	}
	void __wrap___cxa_guard_release(void* g)
	{
		int me = t_id;
		if(me >= 0 && g_active)
		{
			std::unique_lock<std::mutex> lk(g_m);
			g_guard_owner[me].erase(g);
		}
		__real___cxa_guard_release(g);
	}
	void __wrap___cxa_guard_abort(void* g)
	{
		int me = t_id;
		if(me >= 0 && g_active)
		{
			std::unique_lock<std::mutex> lk(g_m);
			g_guard_owner[me].erase(g);
		}
		__real___cxa_guard_abort(g);
	}
}
